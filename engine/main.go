package main

import (
	"encoding/json"
	"flag"
	"fmt"
	"io"
	"os"
	"path/filepath"
	"runtime/debug"
	"runtime/pprof"
	"sort"
	"strings"
	"time"

	"golang.org/x/tools/go/packages"
	"golang.org/x/tools/go/ssa"
	"golang.org/x/tools/go/ssa/ssautil"
)

type RunResult struct {
	Harness            string                 `json:"harness"`
	Pkg                string                 `json:"pkg"`
	Status             string                 `json:"status"` // ok | violations | incomplete | abort
	Violations         []*Violation           `json:"violations"`
	Reached            map[string]int         `json:"reached"`
	ExpectReach        []string               `json:"expect_reach"`
	MissingReach       []string               `json:"missing_reach"`
	EndWitness         *Sample                `json:"end_witness"`
	Samples            []Sample               `json:"samples"`
	Funcs              []string               `json:"functions_encoded"`
	Incomplete         []string               `json:"incomplete"`
	Aborts             []string               `json:"aborts"`
	Paths              int                    `json:"paths"`
	PathEnds           map[string]int         `json:"path_ends"`
	Steps              int64                  `json:"ssa_steps"`
	Queries            int                    `json:"queries"`
	QSat               int                    `json:"queries_sat"`
	QUnsat             int                    `json:"queries_unsat"`
	QUnknown           int                    `json:"queries_unknown"`
	Obligations        int                    `json:"obligations_discharged_unsat"`
	SolverS            float64                `json:"solver_s"`
	WallS              float64                `json:"wall_s"`
	LoadS              float64                `json:"load_s"`
	MaxUnwind          int                    `json:"unwind_max_seen"`
	Bounds             map[string]int         `json:"bounds"`
	Stubs              []string               `json:"stubs_used"`
	SharedWrites       map[string]int         `json:"shared_writes"`
	SharedWriteSamples map[string][]NondetVal `json:"shared_write_samples,omitempty"`
	Solver             string                 `json:"solver"`
	Cuts               []string               `json:"cuts"`
	Decisions          int                    `json:"symbolic_decisions"`
	Params             map[string]int         `json:"params"`
}

func solverLogWriter(cfg *Config, id int) io.Writer {
	if cfg.SolverLog == "" {
		return nil
	}
	f, err := os.Create(fmt.Sprintf("%s.%d.smt2", cfg.SolverLog, id))
	if err != nil {
		return nil
	}
	return f
}

type overlayFile struct {
	Replace map[string]string
}

func main() {
	var (
		repo      = flag.String("repo", "/repo", "repository root")
		pkgPat    = flag.String("pkg", ".", "package pattern (relative to repo) containing the harness")
		overlay   = flag.String("overlay", "", "overlay JSON file ({\"Replace\":{virtual:real}})")
		harness   = flag.String("harness", "", "harness function name")
		out       = flag.String("out", "", "result JSON path")
		workers   = flag.Int("workers", 16, "worker count")
		unwind    = flag.Int("unwind", 64, "unwinding bound (symbolic decisions per branch per frame)")
		maxSteps  = flag.Int("max-steps", 5_000_000, "SSA step bound per path")
		maxPaths  = flag.Int("max-paths", 200000, "path bound")
		allocCap  = flag.Int64("alloc-cap", 1<<22, "engine cap on one allocation (bytes)")
		solver    = flag.String("solver", "z3-new", "z3-new (5.1.0) | z3 (4.8.12) | cvc5")
		timeoutMs = flag.Int("timeout-ms", 2000, "per-query timeout of the incremental solver before the one-shot fallback (60 s)")
		intMode   = flag.Bool("int", false, "integer arithmetic mode")
		fpReal    = flag.Bool("fp-real", false, "float64 as real numbers with relative rounding error (sound over-approximation; only unsat is meaningful)")
		fallbackS = flag.Int("fallback-s", 60, "timeout of the one-shot fallback solver (seconds)")
		samples   = flag.Int("samples", 4, "number of path samples to keep")
		budget    = flag.Duration("budget", 0, "wall-clock budget (0 = none)")
		violCap   = flag.Int("viol-cap", 0, "stop exploring after this many paths violating one label (0 = off)")
		knownLab  = flag.String("known-labels", "", "JSON file: list of labels (known findings) not counted towards -viol-cap")
		trace     = flag.Bool("trace", false, "trace instructions")
		slog      = flag.String("solver-log", "", "prefix for solver transcript files")
		params    = flag.String("params", "", "harness parameters name=val,name=val")
		allPerLab = flag.Bool("all-cex", false, "keep checking a label after the first counterexample")
	)
	cpuprof := flag.String("cpuprofile", "", "write cpu profile")
	flag.Parse()
	debug.SetGCPercent(400)
	if *cpuprof != "" {
		f, _ := os.Create(*cpuprof)
		pprof.StartCPUProfile(f)
		defer pprof.StopCPUProfile()
	}
	t0 := time.Now()
	cfg := &Config{Harness: *harness, AllocCap: *allocCap, MaxSteps: *maxSteps, Unwind: *unwind, MaxPaths: *maxPaths,
		Workers: *workers, SolverKind: *solver, TimeoutMs: *timeoutMs, IntMode: *intMode, FPReal: *fpReal, FallbackS: *fallbackS, Samples: *samples, Trace: *trace,
		SolverLog: *slog, OnePerLab: !*allPerLab}
	cfg.Params = map[string]int{}
	for _, kv := range strings.Split(*params, ",") {
		if i := strings.IndexByte(kv, '='); i > 0 {
			var v int
			fmt.Sscan(kv[i+1:], &v)
			cfg.Params[kv[:i]] = v
		}
	}
	fbTimeoutDefault = *fallbackS
	cfg.ViolCap = *violCap
	if *knownLab != "" {
		var labs []string
		if b, err := os.ReadFile(*knownLab); err == nil && json.Unmarshal(b, &labs) == nil {
			cfg.KnownLabel = map[string]bool{}
			for _, l := range labs {
				cfg.KnownLabel[l] = true
			}
		}
	}
	if *budget > 0 {
		cfg.Deadline = t0.Add(*budget)
	}
	if *trace {
		cfg.Workers = 1
	}

	ov := map[string][]byte{}
	if *overlay != "" {
		raw, err := os.ReadFile(*overlay)
		if err != nil {
			fatal("overlay: %v", err)
		}
		var of overlayFile
		if err := json.Unmarshal(raw, &of); err != nil {
			fatal("overlay: %v", err)
		}
		for virt, real := range of.Replace {
			b, err := os.ReadFile(real)
			if err != nil {
				fatal("overlay: %v", err)
			}
			ov[virt] = b
		}
	}
	pcfg := &packages.Config{
		Mode:    packages.LoadAllSyntax,
		Dir:     *repo,
		Overlay: ov,
		Env:     append(os.Environ(), "GOFLAGS=-mod=mod", "GOPROXY=off", "GOSUMDB=off", "GOTOOLCHAIN=local"),
	}
	pkgs, err := packages.Load(pcfg, *pkgPat)
	if err != nil {
		fatal("load: %v", err)
	}
	if packages.PrintErrors(pkgs) > 0 {
		fatal("package errors")
	}
	prog, spkgs := ssautil.AllPackages(pkgs, ssa.InstantiateGenerics)
	prog.Build()
	var fn *ssa.Function
	var hpkg *ssa.Package
	for _, sp := range spkgs {
		if sp == nil {
			continue
		}
		if f := sp.Func(*harness); f != nil {
			fn, hpkg = f, sp
		}
	}
	if fn == nil {
		fatal("harness %s not found", *harness)
	}
	loadS := time.Since(t0).Seconds()

	ex := NewExplorer(prog, hpkg, fn, cfg)
	ex.Run()

	res := &RunResult{Harness: *harness, Pkg: hpkg.Pkg.Path(), Reached: ex.reached, EndWitness: ex.endWitness, Samples: ex.samples,
		Incomplete: dedup(ex.incomplete), Aborts: dedup(ex.aborts), Paths: ex.paths, PathEnds: ex.pathEnds, Steps: ex.steps,
		Queries: ex.queries, QSat: ex.nsat, QUnsat: ex.nunsat, QUnknown: ex.unknowns, Obligations: ex.decided,
		SolverS: ex.solverTime.Seconds(), WallS: time.Since(t0).Seconds(), LoadS: loadS, MaxUnwind: ex.maxUnwind,
		Bounds:       map[string]int{"unwind": cfg.Unwind, "max_steps": cfg.MaxSteps, "max_paths": cfg.MaxPaths, "alloc_cap": int(cfg.AllocCap), "query_timeout_ms": cfg.TimeoutMs},
		SharedWrites: ex.shared, SharedWriteSamples: ex.sharedSamples, Solver: *solver}
	for f := range ex.funcs {
		res.Funcs = append(res.Funcs, f)
	}
	sort.Strings(res.Funcs)
	res.Stubs = sortedKeys(ex.assumes)
	res.Cuts = sortedKeys(ex.cuts)
	res.Decisions = ex.symDecisions
	res.Params = cfg.Params
	var labels []string
	for l := range ex.violations {
		labels = append(labels, l)
	}
	sort.Strings(labels)
	for _, l := range labels {
		res.Violations = append(res.Violations, ex.violations[l])
	}
	res.ExpectReach = scanReachLabels(prog, fn)
	for _, l := range res.ExpectReach {
		if ex.reached[l] == 0 {
			res.MissingReach = append(res.MissingReach, l)
		}
	}
	switch {
	case len(res.Aborts) > 0:
		res.Status = "abort"
	case len(res.Violations) > 0:
		res.Status = "violations"
	case len(res.Incomplete) > 0:
		res.Status = "incomplete"
	case len(res.MissingReach) > 0:
		res.Status = "vacuous"
	default:
		res.Status = "ok"
	}
	enc, _ := json.MarshalIndent(res, "", " ")
	if *out != "" {
		os.MkdirAll(filepath.Dir(*out), 0o755)
		os.WriteFile(*out, enc, 0o644)
	}
	fmt.Printf("gosym %s: status=%s paths=%d queries=%d (sat %d unsat %d unknown %d) solver=%.1fs wall=%.1fs violations=%d\n",
		*harness, res.Status, res.Paths, res.Queries, res.QSat, res.QUnsat, res.QUnknown, res.SolverS, res.WallS, len(res.Violations))
	for _, v := range res.Violations {
		fmt.Printf("  CANDIDATE %s\n", v.Label)
	}
	for _, a := range res.Aborts {
		fmt.Printf("  ABORT %s\n", a)
	}
	for _, a := range res.Incomplete {
		fmt.Printf("  INCOMPLETE %s\n", a)
	}
	for _, a := range res.MissingReach {
		fmt.Printf("  UNREACHED %s\n", a)
	}
	pprof.StopCPUProfile()
	switch res.Status {
	case "ok":
		os.Exit(0)
	case "violations":
		os.Exit(1)
	default:
		os.Exit(2)
	}
}

func dedup(xs []string) []string {
	seen := map[string]bool{}
	var out []string
	for _, x := range xs {
		if !seen[x] {
			seen[x] = true
			out = append(out, x)
		}
	}
	if len(out) > 50 {
		out = append(out[:50], fmt.Sprintf("... and %d more", len(out)-50))
	}
	return out
}

func fatal(f string, a ...interface{}) {
	fmt.Fprintf(os.Stderr, "gosym: "+f+"\n", a...)
	os.Exit(3)
}

// scanReachLabels finds constant labels passed to vreach in the harness and the harness-file helpers it calls.
func scanReachLabels(prog *ssa.Program, root *ssa.Function) []string {
	seen := map[*ssa.Function]bool{}
	labels := map[string]bool{}
	var visit func(f *ssa.Function)
	isHarnessFile := func(f *ssa.Function) bool {
		if f.Pos() == 0 {
			return false
		}
		return strings.Contains(filepath.Base(prog.Fset.Position(f.Pos()).Filename), "zz_verif_")
	}
	visit = func(f *ssa.Function) {
		if seen[f] || f.Blocks == nil {
			return
		}
		seen[f] = true
		for _, b := range f.Blocks {
			for _, ins := range b.Instrs {
				c, ok := ins.(*ssa.Call)
				if !ok {
					continue
				}
				callee := c.Call.StaticCallee()
				if callee == nil {
					continue
				}
				if callee.Name() == "vreach" && len(c.Call.Args) == 1 {
					if k, ok := c.Call.Args[0].(*ssa.Const); ok {
						labels[strings.Trim(k.Value.ExactString(), "\"")] = true
					}
				} else if isHarnessFile(callee) {
					visit(callee)
				}
			}
		}
		for _, af := range f.AnonFuncs {
			visit(af)
		}
	}
	visit(root)
	return sortedKeys(labels)
}
