package interpreter

import (
	"crypto/sha256"
	"math/big"

	"github.com/libsv/go-bk/bec"
	"github.com/libsv/go-bt/v2"
	"github.com/libsv/go-bt/v2/bscript"
	"github.com/libsv/go-bt/v2/bscript/interpreter/errs"
	"github.com/libsv/go-bt/v2/bscript/interpreter/scriptflag"
	"github.com/libsv/go-bt/v2/sighash"
)

// ---- reference signature hash (same specification-derived algorithm as the C02/C03 references) ----

func rle32(v uint32) []byte { return []byte{byte(v), byte(v >> 8), byte(v >> 16), byte(v >> 24)} }
func rle64(v uint64) []byte {
	return []byte{byte(v), byte(v >> 8), byte(v >> 16), byte(v >> 24), byte(v >> 32), byte(v >> 40), byte(v >> 48), byte(v >> 56)}
}
func rcompact(n int) []byte {
	if n < 253 {
		return []byte{byte(n)}
	}
	return []byte{0xfd, byte(n), byte(n >> 8)}
}
func rrev(b []byte) []byte {
	r := make([]byte, len(b))
	for i := range b {
		r[len(b)-1-i] = b[i]
	}
	return r
}
func rsha256d(b []byte) []byte {
	h1 := sha256.Sum256(b)
	h2 := sha256.Sum256(h1[:])
	return h2[:]
}

func refSigHash(tx *bt.Tx, idx int, scriptCode []byte, value uint64, ht byte) []byte {
	base := ht & 0x1f
	acp := ht&0x80 != 0
	if ht&0x40 != 0 {
		zero := make([]byte, 32)
		hp, hs, ho := zero, zero, zero
		if !acp {
			var b []byte
			for _, in := range tx.Inputs {
				b = append(b, rrev(in.PreviousTxID())...)
				b = append(b, rle32(in.PreviousTxOutIndex)...)
			}
			hp = rsha256d(b)
		}
		if !acp && base != 2 && base != 3 {
			var b []byte
			for _, in := range tx.Inputs {
				b = append(b, rle32(in.SequenceNumber)...)
			}
			hs = rsha256d(b)
		}
		outBytes := func(o *bt.Output) []byte {
			b := rle64(o.Satoshis)
			b = append(b, rcompact(len(*o.LockingScript))...)
			return append(b, *o.LockingScript...)
		}
		if base != 2 && base != 3 {
			var b []byte
			for _, o := range tx.Outputs {
				b = append(b, outBytes(o)...)
			}
			ho = rsha256d(b)
		} else if base == 3 && idx < len(tx.Outputs) {
			ho = rsha256d(outBytes(tx.Outputs[idx]))
		}
		in := tx.Inputs[idx]
		p := rle32(tx.Version)
		p = append(p, hp...)
		p = append(p, hs...)
		p = append(p, rrev(in.PreviousTxID())...)
		p = append(p, rle32(in.PreviousTxOutIndex)...)
		p = append(p, rcompact(len(scriptCode))...)
		p = append(p, scriptCode...)
		p = append(p, rle64(value)...)
		p = append(p, rle32(in.SequenceNumber)...)
		p = append(p, ho...)
		p = append(p, rle32(tx.LockTime)...)
		p = append(p, rle32(uint32(ht))...)
		return rsha256d(p)
	}
	if base == 3 && idx >= len(tx.Outputs) {
		one := make([]byte, 32)
		one[0] = 1
		return one
	}
	p := rle32(tx.Version)
	wr := func(i int) {
		in := tx.Inputs[i]
		p = append(p, rrev(in.PreviousTxID())...)
		p = append(p, rle32(in.PreviousTxOutIndex)...)
		if i == idx {
			p = append(p, rcompact(len(scriptCode))...)
			p = append(p, scriptCode...)
			p = append(p, rle32(in.SequenceNumber)...)
		} else {
			p = append(p, 0)
			if base == 2 || base == 3 {
				p = append(p, 0, 0, 0, 0)
			} else {
				p = append(p, rle32(in.SequenceNumber)...)
			}
		}
	}
	if acp {
		p = append(p, 1)
		wr(idx)
	} else {
		p = append(p, rcompact(len(tx.Inputs))...)
		for i := range tx.Inputs {
			wr(i)
		}
	}
	switch base {
	case 2:
		p = append(p, 0)
	case 3:
		p = append(p, rcompact(idx+1)...)
		for i := 0; i < idx; i++ {
			p = append(p, 0xff, 0xff, 0xff, 0xff, 0xff, 0xff, 0xff, 0xff, 0)
		}
		o := tx.Outputs[idx]
		p = append(p, rle64(o.Satoshis)...)
		p = append(p, rcompact(len(*o.LockingScript))...)
		p = append(p, *o.LockingScript...)
	default:
		p = append(p, rcompact(len(tx.Outputs))...)
		for _, o := range tx.Outputs {
			p = append(p, rle64(o.Satoshis)...)
			p = append(p, rcompact(len(*o.LockingScript))...)
			p = append(p, *o.LockingScript...)
		}
	}
	p = append(p, rle32(tx.LockTime)...)
	p = append(p, rle32(uint32(ht))...)
	return rsha256d(p)
}

// ---- script slots ----

type vslot struct {
	kind int // 0 NOP, 1 CODESEPARATOR, 2 push of an unrelated byte
}

func vslotBytes(k int) []byte {
	switch k {
	case 0:
		return []byte{bscript.OpNOP}
	case 1:
		return []byte{bscript.OpCODESEPARATOR}
	}
	return []byte{1, 0x42}
}

// refScriptCode: the script code for a signature check at instruction index `at` of script ops
// (each op given as its bytes): everything after the last executed separator; in legacy mode the
// remaining separators are dropped too (the signature itself never occurs in these scripts).
func refScriptCode(ops [][]byte, lastSep int, legacy bool) []byte {
	var out []byte
	start := lastSep + 1
	for i := start; i < len(ops); i++ {
		if legacy && len(ops[i]) == 1 && ops[i][0] == bscript.OpCODESEPARATOR {
			continue
		}
		out = append(out, ops[i]...)
	}
	return out
}

type vsigEnv struct {
	th     *thread
	tx     *bt.Tx
	ops    [][]byte
	value   uint64
	forkid  bool
	lastSep int // index of the last executed OP_CODESEPARATOR, -1 if none
	sigMask scriptflag.Flag
}

// vsigThread: a thread about to execute the final instruction (a signature opcode) of a locking
// script made of up to S symbolic slots; the separator position is whatever executing the script
// up to that instruction would have recorded (any separator among the slots, or none).
func vsigThread(sigOp byte) *vsigEnv {
	// only the signature-related flags matter to these opcodes
	mask := scriptflag.StrictMultiSig | scriptflag.VerifyNullFail | scriptflag.EnableSighashForkID | scriptflag.VerifyStrictEncoding
	if sigOp == bscript.OpCHECKSIG || sigOp == bscript.OpCHECKSIGVERIFY {
		mask |= scriptflag.VerifyDERSignatures | scriptflag.VerifyLowS
	}
	flags := vflags() & mask
	after := vparam("ERA", 1) == 1 && vnondetBool("aftergenesis")
	if after {
		flags |= scriptflag.UTXOAfterGenesis
	}
	ns := vnondetLen("nslots", 0, vparam("S", 2))
	var ops [][]byte
	var script bscript.Script
	sepAt := []int{}
	for i := 0; i < ns; i++ {
		k := vnondetLen("slot", 0, 2)
		if k == 1 {
			sepAt = append(sepAt, i)
		}
		ops = append(ops, vslotBytes(k))
		script = append(script, vslotBytes(k)...)
	}
	ops = append(ops, []byte{sigOp})
	script = append(script, sigOp)
	sigAt := len(ops) - 1
	// one more instruction after the signature opcode (still part of the script code)
	if vparam("TRAIL", 1) >= 1 && vnondetBool("trailing") {
		k := vnondetLen("trailing-slot", 0, 2)
		ops = append(ops, vslotBytes(k))
		script = append(script, vslotBytes(k)...)
		if vparam("TRAIL", 1) >= 2 && k == 1 && vnondetBool("trailing2") { // a not-yet-executed separator followed by one more opcode
			ops = append(ops, vslotBytes(0))
			script = append(script, vslotBytes(0)...)
		}
	}
	tx := &bt.Tx{Version: vnondetU32("version"), LockTime: vnondetU32("locktime")}
	nIn := 2
	for i := 0; i < nIn; i++ {
		in := &bt.Input{PreviousTxOutIndex: vnondetU32("vout"), SequenceNumber: vnondetU32("seq")}
		_ = in.PreviousTxIDAdd(vnondetBytes("txid", 32, 32))
		tx.Inputs = append(tx.Inputs, in)
	}
	for i := 0; i < 1+vparam("OUT2", 0); i++ {
		ls := bscript.Script(vnondetBytes("outscript", 1, 1))
		tx.Outputs = append(tx.Outputs, &bt.Output{Satoshis: vnondetU64("outsats"), LockingScript: &ls})
	}
	idx := 1
	value := vnondetU64("spent")
	th := &thread{flags: flags, cfg: &beforeGenesisConfig{}, elseStack: &nopBoolStack{}, debug: &nopDebugger{}, state: &nopStateHandler{}}
	if after {
		th.elseStack = &stack{debug: &nopDebugger{}, sh: &nopStateHandler{}}
		th.afterGenesis = true
		th.cfg = &afterGenesisConfig{}
	}
	th.tx, th.inputIdx = tx, idx
	th.prevOutput = &bt.Output{Satoshis: value, LockingScript: &script}
	tx.Inputs[idx].PreviousTxScript, tx.Inputs[idx].PreviousTxSatoshis = &script, value
	th.scriptParser = &DefaultOpcodeParser{}
	ps, err := th.scriptParser.Parse(&script)
	vassume(err == nil)
	th.scripts = []ParsedScript{{}, ps}
	th.scriptIdx, th.scriptOff = 1, sigAt
	th.dstack = newStack(th.cfg, false)
	th.astack = newStack(th.cfg, false)
	// the separators before the signature opcode have all been executed: run them for real so that
	// the thread records whatever the implementation records
	lastSep := -1
	for _, p := range sepAt {
		th.scriptOff = p
		vassume(th.executeOpcode(ps[p]) == nil)
		lastSep = p
	}
	th.scriptOff = sigAt
	th.numOps = 0
	return &vsigEnv{th: th, tx: tx, ops: ops, value: value, forkid: flags&scriptflag.EnableSighashForkID != 0, lastSep: lastSep}
}

func vkey(tag string) (*bec.PrivateKey, []byte) {
	kb := vnondetBytes(tag, 32, 32)
	vassume(kb[0] >= 1 && kb[0] <= 0x7f)
	priv, _ := bec.PrivKeyFromBytes(bec.S256(), kb)
	if vparam("UNC", 0) == 1 && vnondetBool(tag+"-uncompressed") {
		return priv, priv.PubKey().SerialiseUncompressed()
	}
	return priv, priv.PubKey().SerialiseCompressed()
}

// vhashType: one of the six standard types, with the FORKID bit exactly when the flag demands it.
func vhashType(forkid bool) byte {
	ht := byte([]sighash.Flag{sighash.All, sighash.Single | sighash.AnyOneCanPay, sighash.None}[vnondetLen("hashtype", 0, vparam("HT", 1))])
	if forkid {
		ht |= byte(sighash.ForkID)
	}
	return ht
}

func (e *vsigEnv) refHash(ht byte) []byte {
	legacy := ht&0x40 == 0
	sc := refScriptCode(e.ops, e.lastSep, legacy)
	return refSigHash(e.tx, e.th.inputIdx, sc, e.value, ht)
}

// C06-A: OP_CHECKSIG / OP_CHECKSIGVERIFY with library-grade signatures.
func VH_C06_CheckSig() {
	verify := vnondetBool("verify-variant")
	op := byte(bscript.OpCHECKSIG)
	if verify {
		op = bscript.OpCHECKSIGVERIFY
	}
	e := vsigThread(op)
	th := e.th
	priv, pub := vkey("key")
	ht := vhashType(e.forkid)
	h := e.refHash(ht)
	kind := vnondetLen("sigkind", 0, 3)
	var sig []byte
	valid := false
	switch kind {
	case 0: // a correct signature
		s, _ := priv.Sign(h)
		sig = append(s.Serialise(), ht)
		valid = true
	case 1: // a signature over something else
		other := append([]byte{}, h...)
		other[0] ^= 1 + vnondetU8("hash-delta")&0x7e
		s, _ := priv.Sign(other)
		sig = append(s.Serialise(), ht)
	case 2: // a correct signature checked against another key
		s, _ := priv.Sign(h)
		sig = append(s.Serialise(), ht)
		_, pub2 := vkey("other-key")
		vassume(!vbytesEq(pub2[1:33], pub[1:33])) // another point (X differs; encodings may differ in form)
		pub = pub2
	case 3: // the empty signature
		sig = []byte{}
	}
	th.dstack.stk = [][]byte{sig, pub}
	extBefore := vcopy(e.tx.ExtendedBytes())
	err := th.executeOpcode(th.scripts[1][th.scriptOff])
	vassert(vbytesEq(e.tx.ExtendedBytes(), extBefore), "C08: a signature check leaves the caller's transaction, incl. the recorded spent output, unchanged")
	for _, o := range e.tx.Outputs {
		vassert(o.LockingScript != nil && len(*o.LockingScript) == 1, "C08: a signature check leaves the caller's outputs alone")
	}
	nullfail := th.flags&scriptflag.VerifyNullFail != 0
	switch {
	case valid:
		vassert(err == nil, "C06: CHECKSIG with a valid signature does not fail")
		if err == nil && !verify {
			vassert(len(th.dstack.stk) == 1 && asBool(th.dstack.stk[0]), "C06: CHECKSIG pushes true for a valid signature")
		}
		vreach("c06-checksig-valid")
	case kind == 3:
		if verify {
			vassert(err != nil, "C06: CHECKSIGVERIFY fails on an empty signature")
		} else {
			vassert(err == nil && len(th.dstack.stk) == 1 && !asBool(th.dstack.stk[0]), "C06: empty signature yields false, not an error")
		}
		vreach("c06-checksig-empty")
	default:
		if nullfail || verify {
			vassert(err != nil, "C06: invalid non-empty signature is a hard failure under NULLFAIL / VERIFY")
		} else {
			vassert(err == nil && len(th.dstack.stk) == 1 && !asBool(th.dstack.stk[0]), "C06: invalid signature yields false, not an error")
		}
		vreach("c06-checksig-invalid")
	}
}

// C06-B: OP_CHECKMULTISIG with n keys and m signatures, each signature made by a chosen key
// (or wrong / empty); success exactly when the signatures match keys in order.
func VH_C06_MultiSig() {
	e := vsigThread(bscript.OpCHECKMULTISIG)
	th := e.th
	n := vnondetLen("nkeys", 0, vparam("N", 2))
	m := vnondetLen("nsigs", 0, n)
	var privs []*bec.PrivateKey
	var pubs [][]byte
	for i := 0; i < n; i++ {
		p, pb := vkey("key")
		for _, q := range pubs {
			vassume(!vbytesEq(q, pb))
		}
		privs = append(privs, p)
		pubs = append(pubs, pb)
	}
	ht := vhashType(e.forkid)
	h := e.refHash(ht)
	// signature j is made by key who[j] (who[j] == n: an empty signature)
	who := make([]int, m)
	var sigs [][]byte
	for j := 0; j < m; j++ {
		who[j] = vnondetLen("signer", 0, n)
		if who[j] == n {
			sigs = append(sigs, []byte{})
		} else {
			s, _ := privs[who[j]].Sign(h)
			sigs = append(sigs, append(s.Serialise(), ht))
		}
	}
	// reference: signatures must match keys in order (greedy matching is optimal for distinct keys)
	want := true
	next := 0
	for j := 0; j < m; j++ {
		if who[j] == n || who[j] < next {
			want = false
			break
		}
		next = who[j] + 1
	}
	dummy := vnondetBytes("dummy", 0, 1)
	// stack: dummy sig_1..sig_m m key_1..key_n n   (keys are popped from the top: key_n first)
	stk := [][]byte{dummy}
	stk = append(stk, sigs...)
	stk = append(stk, vsmall(m))
	stk = append(stk, pubs...)
	stk = append(stk, vsmall(n))
	th.dstack.stk = stk
	err := th.executeOpcode(th.scripts[1][th.scriptOff])
	nulldummy := th.flags&scriptflag.StrictMultiSig != 0
	nullfail := th.flags&scriptflag.VerifyNullFail != 0
	anySig := false
	for j := 0; j < m; j++ {
		if who[j] != n {
			anySig = true
		}
	}
	switch {
	case nulldummy && len(dummy) != 0:
		vassert(err != nil, "C06: non-empty dummy is a hard failure under NULLDUMMY")
		vreach("c06-multisig-dummy")
	case want:
		vassert(err == nil && len(th.dstack.stk) == 1 && asBool(th.dstack.stk[0]), "C06: CHECKMULTISIG succeeds when the signatures match the keys in order")
		vreach("c06-multisig-ok")
	case nullfail && anySig:
		vassert(err != nil, "C06: failed CHECKMULTISIG with a non-empty signature is a hard failure under NULLFAIL")
		vreach("c06-multisig-nullfail")
	default:
		vassert(err == nil && len(th.dstack.stk) == 1 && !asBool(th.dstack.stk[0]), "C06: CHECKMULTISIG yields false (not an error) when the signatures do not match in order")
		vreach("c06-multisig-false")
	}
}

func vsmall(n int) []byte {
	if n == 0 {
		return []byte{}
	}
	return []byte{byte(n)}
}

// refIsDER: BIP66 strict DER check of a signature including its trailing hash-type byte.
func refIsDER(sig []byte) bool {
	n := len(sig)
	if n < 9 || n > 73 {
		return false
	}
	if sig[0] != 0x30 || int(sig[1]) != n-3 {
		return false
	}
	lenR := int(sig[3])
	if 5+lenR >= n {
		return false
	}
	lenS := int(sig[5+lenR])
	if lenR+lenS+7 != n {
		return false
	}
	if sig[2] != 0x02 || lenR == 0 || sig[4]&0x80 != 0 {
		return false
	}
	if lenR > 1 && sig[4] == 0 && sig[5]&0x80 == 0 {
		return false
	}
	if sig[lenR+4] != 0x02 || lenS == 0 || sig[lenR+6]&0x80 != 0 {
		return false
	}
	if lenS > 1 && sig[lenR+6] == 0 && sig[lenR+7]&0x80 == 0 {
		return false
	}
	return true
}

// C06-C: arbitrary (forged / malformed) signature bytes and hash types: the encoding flags turn
// exactly the malformed cases into hard failures; everything else yields false (or a hard failure
// under NULLFAIL), never true and never a fault.
func VH_C06_Encoding() {
	e := vsigThread(bscript.OpCHECKSIG)
	th := e.th
	_, pub := vkey("key")
	if vnondetBool("odd-key-prefix") {
		pub = append([]byte{vnondetU8("key-prefix")}, pub[1:]...)
	}
	// includes the trailing hash-type byte when non-empty; 9 bytes is the shortest well-formed DER signature
	sl := []int{0, 1, 9, 10, 8, 11, 12}[vnondetLen("siglen", 0, vparam("SLN", 3))]
	sig := vnondetBytes("sig", sl, sl)
	th.dstack.stk = [][]byte{sig, pub}
	err := th.executeOpcode(th.scripts[1][th.scriptOff])
	fl := th.flags
	strict := fl&scriptflag.VerifyStrictEncoding != 0
	derFlags := fl&(scriptflag.VerifyDERSignatures|scriptflag.VerifyLowS|scriptflag.VerifyStrictEncoding) != 0
	if len(sig) == 0 {
		// the empty signature is validly encoded, but the node still checks the key encoding
		// (CheckSignatureEncoding(empty) succeeds, then CheckPubKeyEncoding runs)
		if strict && !(len(pub) == 33 && (pub[0] == 2 || pub[0] == 3)) {
			vassert(err != nil, "C06: empty signature with a malformed key is a hard failure under strict encoding")
			vreach("c06-enc-empty-badkey")
			return
		}
		vassert(err == nil && len(th.dstack.stk) == 1 && !asBool(th.dstack.stk[0]), "C06: empty signature is false, not an error")
		vreach("c06-enc-empty")
		return
	}
	ht := sig[len(sig)-1]
	base := ht &^ 0xc0
	badType := strict && (base < 1 || base > 3 || (ht&0x40 != 0) != e.forkid)
	badKey := strict && !(len(pub) == 33 && (pub[0] == 2 || pub[0] == 3))
	if (derFlags && !refIsDER(sig)) || badType || badKey {
		vassert(err != nil, "C06: malformed signature / hash type / key encoding is a hard failure under the encoding flags")
		vreach("c06-enc-hard")
		return
	}
	// a forged signature never verifies
	if fl&scriptflag.VerifyNullFail != 0 {
		vassert(err != nil, "C06: forged non-empty signature is a hard failure under NULLFAIL")
	} else {
		vassert(err == nil && len(th.dstack.stk) == 1 && !asBool(th.dstack.stk[0]), "C06: forged signature yields false")
	}
	vreach("c06-enc-soft")
}

// C06-L: full-width signatures. A DER-shaped signature 30 LL 02 rl R 02 sl S with rl in {32,33},
// sl in {32,33,34} and every byte of R and S symbolic (so padding, sign bits and the overall 73-byte
// limit are all in play): under the encoding flags the opcode hard-fails exactly when the BIP66 rules
// reject the bytes; for well-formed ones the high-S error is raised exactly for S above half the group
// order under LOW_S; in every other case the signature is merely forged (false, or a hard failure
// under NULLFAIL).
func VH_C06_LowS() {
	e := vsigThread(bscript.OpCHECKSIG)
	th := e.th
	_, pub := vkey("key")
	rl := 32 + vnondetLen("r-len", 0, vparam("RL", 1))
	sl := 32 + vnondetLen("s-len", 0, vparam("SL", 2))
	r, s := vnondetBytes("sig-r", rl, rl), vnondetBytes("sig-s", sl, sl)
	sig := append([]byte{0x30, byte(rl + sl + 4), 0x02, byte(rl)}, r...)
	sig = append(sig, 0x02, byte(sl))
	sig = append(sig, s...)
	sig = append(sig, vhashType(e.forkid))
	th.dstack.stk = [][]byte{sig, pub}
	err := th.executeOpcode(th.scripts[1][th.scriptOff])
	fl := th.flags
	derFlags := fl&(scriptflag.VerifyDERSignatures|scriptflag.VerifyLowS|scriptflag.VerifyStrictEncoding) != 0
	forged := func() {
		if fl&scriptflag.VerifyNullFail != 0 {
			vassert(err != nil, "C06: forged full-width signature is a hard failure under NULLFAIL")
		} else {
			vassert(err == nil && len(th.dstack.stk) == 1 && !asBool(th.dstack.stk[0]), "C06: forged full-width signature yields false")
		}
	}
	if !refIsDER(sig) {
		if derFlags {
			vassert(err != nil, "C06: malformed full-width signature is a hard failure under the encoding flags")
		} else {
			forged()
		}
		vreach("c06-lows-malformed")
		return
	}
	// half the order of secp256k1, from the curve specification (SEC 2): n = FFFFFFFF FFFFFFFF FFFFFFFF FFFFFFFE BAAEDCE6 AF48A03B BFD25E8C D0364141
	half := []byte{0x7f, 0xff, 0xff, 0xff, 0xff, 0xff, 0xff, 0xff, 0xff, 0xff, 0xff, 0xff, 0xff, 0xff, 0xff, 0xff, 0x5d, 0x57, 0x6e, 0x73, 0x57, 0xa4, 0x50, 0x1d, 0xdf, 0xe9, 0x2f, 0x46, 0x68, 0x1b, 0x20, 0xa0}
	high := new(big.Int).SetBytes(s).Cmp(new(big.Int).SetBytes(half)) > 0
	isHighErr := err != nil && verrCode(err) == int(errs.ErrSigHighS)
	vassert(isHighErr == (high && fl&scriptflag.VerifyLowS != 0), "C06: the high-S failure is raised exactly for S above half the order under LOW_S")
	if !isHighErr {
		forged()
		vreach("c06-lows-low")
	} else {
		vreach("c06-lows-high")
	}
}
