#!/usr/bin/env python3
"""Regenerates the seeded-changes table in DESIGN.md from seeded/*/meta.json."""
import json, glob, os, re
rows = []
for f in sorted(glob.glob('/verif/seeded/*/meta.json')):
    m = json.load(open(f))
    readme = (m.get('needs_to_manifest') or '').strip().split('\n')
    first = next((l.strip('# ').strip() for l in readme if l.strip() and not l.startswith('#')), '')
    if len(first) > 150:
        first = first[:147] + '...'
    checks = m.get('checks', {})
    det = ', '.join('%s: %s' % (p, 'caught' if c['detected'] else ('MISSED' if c['exit'] == 0 else ('unfinished' if c['exit'] is None else 'inconclusive(exit %d)' % c['exit']))) for p, c in checks.items())
    labels = []
    for c in checks.values():
        for v in c.get('violation_lines', [])[:1]:
            mm = re.search(r'\((VH_\w+) (.*?); native', v)
            if mm:
                labels.append('%s "%s"' % (mm.group(1), mm.group(2)[:70]))
    rows.append('| %s | %s | %s | %s | %s |' % (m['name'], 'yes' if m.get('confirmed') else 'NO', first.replace('|', '/'), det, '; '.join(labels).replace('|', '/')))
table = '| seed | confirmed | change (from the seeder\'s README) | result of the registered quick check | caught by |\n|---|---|---|---|---|\n' + '\n'.join(rows)
p = '/verif/DESIGN.md'
s = open(p).read()
if 'SEEDED_TABLE' in s and '<!-- SEEDED_TABLE_BEGIN -->' not in s:
    s = s.replace('SEEDED_TABLE', '<!-- SEEDED_TABLE_BEGIN -->\n' + table + '\n<!-- SEEDED_TABLE_END -->')
else:
    s = re.sub(r'<!-- SEEDED_TABLE_BEGIN -->.*?<!-- SEEDED_TABLE_END -->', lambda _: '<!-- SEEDED_TABLE_BEGIN -->\n' + table + '\n<!-- SEEDED_TABLE_END -->', s, flags=re.S)
open(p, 'w').write(s)
print(len(rows), 'rows')
