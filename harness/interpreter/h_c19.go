package interpreter

import (
	"github.com/libsv/go-bk/crypto"
	"github.com/libsv/go-bt/v2/bscript"
	"github.com/libsv/go-bt/v2/bscript/interpreter/errs"
	"github.com/libsv/go-bt/v2/bscript/interpreter/scriptflag"
)

const (
	evBeforeExecute = iota + 1
	evAfterExecute
	evBeforeStep
	evAfterStep
	evBeforeOpcode
	evAfterOpcode
	evBeforeScriptChange
	evAfterScriptChange
	evAfterSuccess
	evAfterError
	evBeforePush
	evAfterPush
	evBeforePop
	evAfterPop
)

// vDbg records the callback sequence and scribbles over all stack data of every snapshot.
type vDbg struct {
	log        []int
	scribble   bool
	fill       byte // what the scribbling debugger writes over every stack byte of a snapshot (symbolic)
	afterOp    [][]byte // copy of the data stack seen by the last AfterExecuteOpcode
	haveAfter  bool
	afterStepD [][]byte
	haveStep   bool
	badSnap    bool // a callback received a snapshot that does not describe a running thread
}

func (d *vDbg) see(ev int, s *State) {
	d.log = append(d.log, ev)
	if len(s.Scripts) < 2 || s.ScriptIdx < 0 || s.ScriptIdx >= len(s.Scripts) {
		d.badSnap = true
	} else if s.OpcodeIdx >= 0 && s.OpcodeIdx < len(s.Scripts[s.ScriptIdx]) {
		_ = s.Opcode() // what a recording debugger does with a snapshot
	}
	if ev == evAfterOpcode {
		d.afterOp, d.haveAfter = nil, true
		for _, it := range s.DataStack {
			d.afterOp = append(d.afterOp, vcopy(it))
		}
	}
	if ev == evAfterStep {
		d.afterStepD, d.haveStep = nil, true
		for _, it := range s.DataStack {
			d.afterStepD = append(d.afterStepD, vcopy(it))
		}
	}
	if d.scribble {
		for _, stk := range [][][]byte{s.DataStack, s.AltStack, s.ElseStack, s.SavedFirstStack} {
			for _, it := range stk {
				for i := range it {
					it[i] = d.fill
				}
			}
		}
		for i := range s.CondStack {
			s.CondStack[i] = 7
		}
		s.NumOps += 1000
	}
}

func (d *vDbg) BeforeExecute(s *State)             { d.see(evBeforeExecute, s) }
func (d *vDbg) AfterExecute(s *State)              { d.see(evAfterExecute, s) }
func (d *vDbg) BeforeStep(s *State)                { d.see(evBeforeStep, s) }
func (d *vDbg) AfterStep(s *State)                 { d.see(evAfterStep, s) }
func (d *vDbg) BeforeExecuteOpcode(s *State)       { d.see(evBeforeOpcode, s) }
func (d *vDbg) AfterExecuteOpcode(s *State)        { d.see(evAfterOpcode, s) }
func (d *vDbg) BeforeScriptChange(s *State)        { d.see(evBeforeScriptChange, s) }
func (d *vDbg) AfterScriptChange(s *State)         { d.see(evAfterScriptChange, s) }
func (d *vDbg) AfterSuccess(s *State)              { d.see(evAfterSuccess, s) }
func (d *vDbg) AfterError(s *State, err error)     { d.see(evAfterError, s) }
func (d *vDbg) BeforeStackPush(s *State, b []byte) { d.see(evBeforePush, s) }
func (d *vDbg) AfterStackPush(s *State, b []byte)  { d.see(evAfterPush, s) }
func (d *vDbg) BeforeStackPop(s *State)            { d.see(evBeforePop, s) }
func (d *vDbg) AfterStackPop(s *State, b []byte)   { d.see(evAfterPop, s) }

func verrCode(err error) int {
	if err == nil {
		return -1
	}
	if e, ok := err.(errs.Error); ok {
		return int(e.ErrorCode)
	}
	return -2
}

func vstacksEq(a, b [][]byte) bool {
	if len(a) != len(b) {
		return false
	}
	ok := true
	for i := range a {
		ok = vand(ok, vbytesEq(a[i], b[i]))
	}
	return ok
}

// vcloneThread: an independent copy of the run-time state of th with debugger dbg attached.
func vcloneThread(th *thread, dbg Debugger) *thread {
	c := *th
	c.dstack.stk, c.astack.stk = nil, nil
	for _, it := range th.dstack.stk {
		c.dstack.stk = append(c.dstack.stk, vcopy(it))
	}
	for _, it := range th.astack.stk {
		c.astack.stk = append(c.astack.stk, vcopy(it))
	}
	c.condStack = append([]int{}, th.condStack...)
	if es, ok := th.elseStack.(*stack); ok {
		ne := &stack{debug: &nopDebugger{}, sh: &nopStateHandler{}}
		for _, it := range es.stk {
			ne.stk = append(ne.stk, vcopy(it))
		}
		c.elseStack = ne
	}
	c.debug = dbg
	c.state = &c
	c.dstack.debug, c.dstack.sh = dbg, &c
	c.astack.debug, c.astack.sh = dbg, &c
	return &c
}

// vlogOK: the callback sequence of one Step: opcode bracket, adjacent push/pop pairs inside it,
// script-change pair only after the opcode bracket.
func vstepLogOK(log []int, stepErr bool, p2sh bool) bool {
	i := 0
	if i >= len(log) || log[i] != evBeforeOpcode {
		return len(log) == 0 // validPC failure: no callback at all
	}
	i++
	for i < len(log) && (log[i] == evBeforePush || log[i] == evBeforePop) {
		if log[i] == evBeforePush {
			if i+1 >= len(log) || log[i+1] != evAfterPush {
				return false
			}
			i += 2
		} else {
			if i+1 < len(log) && log[i+1] == evAfterPop {
				i += 2
			} else {
				i++ // a failed pop has no AfterStackPop
			}
		}
	}
	if i < len(log) && log[i] == evAfterOpcode {
		i++
	} else if !stepErr && !(i < len(log) && log[i] == evBeforeScriptChange) {
		return false
	}
	// alt stack is cleared with pops at a script end, then the script change pair
	for i < len(log) && log[i] == evBeforePop {
		if i+1 < len(log) && log[i+1] == evAfterPop {
			i += 2
		} else {
			i++
		}
	}
	if i < len(log) && log[i] == evBeforeScriptChange {
		if i+1 >= len(log) || log[i+1] != evAfterScriptChange {
			return false
		}
		i += 2
	}
	// only the P2SH stack switch may pop/push after the script change
	for p2sh && i < len(log) && (log[i] == evBeforePush || log[i] == evAfterPush || log[i] == evBeforePop || log[i] == evAfterPop) {
		i++
	}
	return i == len(log)
}

// C19-S: one step with no debugger versus a recording + scribbling debugger, same state.
func VH_C19_Step() {
	vunwindCut(vparam("U", 6))
	th, _, ok := vstepThread(vStepOpts{depth: vparam("D", 3), k: vparam("K", 2), adepth: 1, cdepth: vparam("C", 1)})
	if !ok {
		return
	}
	dbg := &vDbg{scribble: true, fill: vnondetU8("scribble-fill")}
	td := vcloneThread(th, dbg)
	done1, err1 := th.Step()
	done2, err2 := td.Step()
	vassert(verrCode(err1) == verrCode(err2) && done1 == done2, "C19: same verdict with and without debugger")
	vassert(vstacksEq(th.dstack.stk, td.dstack.stk) && vstacksEq(th.astack.stk, td.astack.stk), "C19: same stacks with and without a scribbling debugger")
	okc := len(th.condStack) == len(td.condStack)
	if okc {
		for i := range th.condStack {
			okc = okc && th.condStack[i] == td.condStack[i]
		}
	}
	vassert(okc && th.numOps == td.numOps && th.scriptIdx == td.scriptIdx && th.scriptOff == td.scriptOff, "C19: same control state with and without debugger")
	vassert(vstepLogOK(dbg.log, err2 != nil, th.bip16), "C19: callbacks fire in the documented order")
	vassert(!dbg.badSnap, "C19: every snapshot describes the running thread")
	if err2 == nil && dbg.haveAfter && len(dbg.log) > 0 && dbg.log[len(dbg.log)-1] == evAfterOpcode {
		vassert(vstacksEq(dbg.afterOp, td.dstack.stk), "C19: AfterExecuteOpcode snapshot equals the state after the instruction")
	}
	vreach("c19-step")
}

// C19-E: whole executions with and without debugger on short scripts: same verdict, lifecycle order.
func VH_C19_Execute() {
	vunwindCut(vparam("U", 8))
	lsb := vnondetBytes("ls", 1, vparam("L", 1))
	usb := []byte{bscript.Op1}
	if vnondetBool("us-data") {
		usb = append([]byte{2}, vnondetBytes("us", 2, 2)...)
	}
	ls, us := bscript.Script(lsb), bscript.Script(usb)
	ls2, us2 := bscript.Script(vcopy(lsb)), bscript.Script(vcopy(usb))
	flags := []scriptflag.Flag{0, scriptflag.UTXOAfterGenesis, scriptflag.Bip16 | scriptflag.VerifyCleanStack | scriptflag.VerifyMinimalData}[vnondetLen("flagset", 0, 2)]
	err1 := NewEngine().Execute(WithScripts(&ls, &us), WithFlags(flags))
	dbg := &vDbg{scribble: true, fill: vnondetU8("scribble-fill")}
	err2 := NewEngine().Execute(WithScripts(&ls2, &us2), WithFlags(flags), WithDebugger(dbg))
	vassert(verrCode(err1) == verrCode(err2), "C19: Execute verdict unchanged by a debugger")
	// lifecycle: execute > (step > opcode...)* > success | error
	log := dbg.log
	ok := true
	if len(log) > 0 {
		ok = log[0] == evBeforeExecute
		last := log[len(log)-1]
		if err2 == nil {
			ok = ok && last == evAfterSuccess
		} else {
			ok = ok && last == evAfterError
		}
		depth, inStep, changed := 0, false, false
		nExec := 0
		for _, e := range log {
			switch e {
			case evBeforeExecute:
				nExec++
				ok = ok && depth == 0
				depth = 1
			case evAfterExecute:
				ok = ok && depth == 1
				depth = 2
			case evBeforeStep:
				ok = ok && depth == 1 && !inStep
				inStep, changed = true, false
			case evBeforePush, evAfterPush, evBeforePop, evAfterPop:
				// stack traffic of a step precedes its script change (no P2SH switch here); the final
				// verdict is popped after AfterExecute
				ok = ok && ((inStep && !changed) || depth == 2)
			case evAfterScriptChange:
				ok = ok && inStep
				changed = true
			case evAfterStep:
				ok = ok && inStep
				inStep = false
			case evBeforeOpcode, evAfterOpcode, evBeforeScriptChange:
				ok = ok && inStep
			case evAfterSuccess, evAfterError:
				ok = ok && depth >= 1
			}
		}
		ok = ok && nExec == 1
	} else {
		ok = err2 != nil // rejected before execution started: no callbacks
	}
	vassert(ok, "C19: lifecycle callbacks in documented order")
	vassert(!dbg.badSnap, "C19: every snapshot describes the running thread")
	if err2 == nil {
		vreach("c19-exec-ok")
	} else {
		vreach("c19-exec-err")
	}
}

// C19-P: pay-to-script-hash executions (the only place the saved first stack exists) with and
// without a scribbling debugger: same verdict. The redeem script is symbolic; the locking script
// commits to its hash through the same hash functions the opcode uses.
func VH_C19_P2SH() {
	vunwindCut(vparam("U", 8))
	redeem := vnondetBytes("redeem", 1, vparam("R", 2))
	h := crypto.Hash160(redeem)
	lsb := append([]byte{bscript.OpHASH160, 0x14}, h...)
	lsb = append(lsb, bscript.OpEQUAL)
	usb := []byte{}
	if vnondetBool("us-arg") {
		usb = append(usb, 1, vnondetU8("arg"))
	}
	usb = append(usb, byte(len(redeem)))
	usb = append(usb, redeem...)
	ls, us := bscript.Script(lsb), bscript.Script(usb)
	ls2, us2 := bscript.Script(vcopy(lsb)), bscript.Script(vcopy(usb))
	flags := scriptflag.Bip16
	if vnondetBool("cleanstack") {
		flags |= scriptflag.VerifyCleanStack
	}
	err1 := NewEngine().Execute(WithScripts(&ls, &us), WithFlags(flags))
	dbg := &vDbg{scribble: true, fill: vnondetU8("scribble-fill")}
	err2 := NewEngine().Execute(WithScripts(&ls2, &us2), WithFlags(flags), WithDebugger(dbg))
	vassert(verrCode(err1) == verrCode(err2), "C19: P2SH verdict unchanged by a scribbling debugger")
	nTerm := 0
	for _, e := range dbg.log {
		if e == evAfterSuccess || e == evAfterError {
			nTerm++
		}
	}
	if len(dbg.log) > 0 {
		last := dbg.log[len(dbg.log)-1]
		vassert(nTerm == 1 && ((err2 == nil && last == evAfterSuccess) || (err2 != nil && last == evAfterError)), "C19: P2SH run ends with exactly one success-or-error callback")
	}
	vassert(!dbg.badSnap, "C19: every snapshot describes the running thread")
	if err1 == nil {
		vreach("c19-p2sh-accepted")
	}
	vreach("c19-p2sh")
}
