package bt

import "time"

var vC18Methods = []string{"Fee", "AddQuote", "Expiry", "UpdateExpiry", "Expired", "MarshalJSON", "UnmarshalJSON"}

func vcallFeeQuote(fq *FeeQuote, m int, jsonBody []byte) {
	switch m {
	case 0:
		// a caller uses the fee it was handed after the lock is released (as Tx.Change does)
		if fee, err := fq.Fee(FeeTypeData); err == nil && fee != nil {
			_ = fee.MiningFee.Satoshis + fee.MiningFee.Bytes
		}
	case 1:
		fq.AddQuote(FeeTypeData, &Fee{FeeType: FeeTypeData, MiningFee: FeeUnit{Satoshis: 1, Bytes: 2}})
	case 2:
		_ = fq.Expiry()
	case 3:
		fq.UpdateExpiry(time.Time{})
	case 4:
		_ = fq.Expired()
	case 5:
		_, _ = fq.MarshalJSON()
	case 6:
		_ = fq.UnmarshalJSON(jsonBody)
	}
}

// C18-A: every ordered pair of FeeQuote methods on one shared quote: no schedule of the two
// calls makes two conflicting accesses adjacent (data-race freedom for two threads, one call each).
func VH_C18_FeeQuote() {
	fq := NewFeeQuote()
	body, _ := NewFeeQuote().MarshalJSON()
	vshared(fq, "FeeQuote")
	m1 := vnondetLen("m1", 0, len(vC18Methods)-1)
	m2 := vnondetLen("m2", m1, len(vC18Methods)-1)
	vthread(1)
	vcallFeeQuote(fq, m1, body)
	vthread(2)
	vcallFeeQuote(fq, m2, body)
	vraceCheck()
	vreach("c18-pair-checked")
}

var vC18QuotesMethods = []string{"Quote", "Fee", "AddMiner", "AddMinerWithDefault", "UpdateMinerFees", "held quote: Fee", "held quote: Expiry"}

// vC18Held: a quote handed out by Quote("a") before the two calls start, used directly by a caller
var vC18Held *FeeQuote

func vcallFeeQuotes(f *FeeQuotes, m int) {
	switch m {
	case 5:
		if fee, err := vC18Held.Fee(FeeTypeData); err == nil && fee != nil {
			_ = fee.MiningFee.Satoshis + fee.MiningFee.Bytes
		}
	case 6:
		_ = vC18Held.Expiry()
	case 0:
		_, _ = f.Quote("a")
	case 1:
		if fee, err := f.Fee("a", FeeTypeData); err == nil && fee != nil {
			_ = fee.MiningFee.Satoshis + fee.MiningFee.Bytes
		}
	case 2:
		f.AddMiner("b", NewFeeQuote())
	case 3:
		f.AddMinerWithDefault("a")
	case 4:
		_, _ = f.UpdateMinerFees("a", FeeTypeData, &Fee{FeeType: FeeTypeData, MiningFee: FeeUnit{Satoshis: 1, Bytes: 2}})
	}
}

// C18-B: the same for FeeQuotes (and the FeeQuote values it hands out).
func VH_C18_FeeQuotes() {
	f := NewFeeQuotes("a")
	vC18Held, _ = f.Quote("a")
	vshared(f, "FeeQuotes")
	m1 := vnondetLen("m1", 0, len(vC18QuotesMethods)-1)
	m2 := vnondetLen("m2", m1, len(vC18QuotesMethods)-1)
	vthread(1)
	vcallFeeQuotes(f, m1)
	vthread(2)
	vcallFeeQuotes(f, m2)
	vraceCheck()
	vreach("c18-quotes-pair-checked")
}
