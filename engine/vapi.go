package main

// Harness API: vnondet*, vassume, vassert, vreach, ... (bodyless functions in the harness package).

import (
	"fmt"
	"go/token"
	"go/types"

	"golang.org/x/tools/go/ssa"
)

type ssaFunc = ssa.Function

var opaqueErrType types.Type = types.NewNamed(types.NewTypeName(token.NoPos, nil, "vengine.error", nil), types.NewStruct(nil, nil), nil)

func concStr(v Value) string {
	s := v.(Str)
	if !s.IsConcrete() {
		panic(engineAbort{"harness tag/label must be a concrete string"})
	}
	return s.Concrete()
}

func concInt(v Value) int {
	t := v.(*Term)
	if !t.IsConst() {
		panic(engineAbort{"harness bound must be concrete"})
	}
	return int(termInt64(t, true))
}

func (in *Interp) nondetScalar(tag, kind string, w int) *Term {
	if in.intMode && w == 64 {
		var t *Term
		if kind == "int" {
			t = in.intSym(tag, minI64, maxI64)
		} else {
			t = in.intSym(tag, big0, maxU64)
		}
		in.nondets = append(in.nondets, NondetRec{Tag: tag, Kind: kind, Terms: []*Term{t}})
		return t
	}
	var s Sort
	if kind == "bool" {
		s = SBool
	} else {
		s = BV(w)
	}
	t := in.freshSym(tag, s)
	in.nondets = append(in.nondets, NondetRec{Tag: tag, Kind: kind, Terms: []*Term{t}})
	return t
}

func vIntrinsic(name string) intrinsic {
	switch name {
	case "vnondetU8":
		return func(in *Interp, fr *frame, a []Value) Value { return in.nondetScalar(concStr(a[0]), "u8", 8) }
	case "vnondetU16":
		return func(in *Interp, fr *frame, a []Value) Value { return in.nondetScalar(concStr(a[0]), "u16", 16) }
	case "vnondetU32":
		return func(in *Interp, fr *frame, a []Value) Value { return in.nondetScalar(concStr(a[0]), "u32", 32) }
	case "vnondetU64":
		return func(in *Interp, fr *frame, a []Value) Value { return in.nondetScalar(concStr(a[0]), "u64", 64) }
	case "vnondetInt":
		return func(in *Interp, fr *frame, a []Value) Value { return in.nondetScalar(concStr(a[0]), "int", 64) }
	case "vnondetBool":
		return func(in *Interp, fr *frame, a []Value) Value { return in.nondetScalar(concStr(a[0]), "bool", 0) }
	case "vnondetLen":
		return func(in *Interp, fr *frame, a []Value) Value {
			tag, lo, hi := concStr(a[0]), concInt(a[1]), concInt(a[2])
			if hi < lo {
				panic(pathEnd{"assume"})
			}
			k := in.pick(hi - lo + 1)
			in.nondets = append(in.nondets, NondetRec{Tag: tag, Kind: "len", Pick: lo + k})
			return in.mkInt(int64(lo + k))
		}
	case "vnondetBytes":
		return func(in *Interp, fr *frame, a []Value) Value {
			tag, lo, hi := concStr(a[0]), concInt(a[1]), concInt(a[2])
			if hi < lo {
				panic(pathEnd{"assume"})
			}
			n := lo + in.pick(hi-lo+1)
			cells := make([]Value, n)
			terms := make([]*Term, n)
			for i := range cells {
				terms[i] = in.freshSym(fmt.Sprintf("%s[%d]", tag, i), BV(8))
				cells[i] = terms[i]
			}
			in.nondets = append(in.nondets, NondetRec{Tag: tag, Kind: "bytes", Terms: terms})
			return Slice{A: cells}
		}
	case "vassume":
		return func(in *Interp, fr *frame, a []Value) Value {
			in.assume(a[0].(*Term))
			return nil
		}
	case "vassert":
		return func(in *Interp, fr *frame, a []Value) Value {
			in.obligation(a[0].(*Term), "assert:"+concStr(a[1]), false)
			return nil
		}
	case "vreach":
		return func(in *Interp, fr *frame, a []Value) Value {
			l := concStr(a[0])
			in.reach = append(in.reach, l)
			in.ex.mu.Lock()
			in.ex.reached[l]++
			in.ex.mu.Unlock()
			return nil
		}
	case "vand":
		return func(in *Interp, fr *frame, a []Value) Value { return in.tb.And(a[0].(*Term), a[1].(*Term)) }
	case "vor":
		return func(in *Interp, fr *frame, a []Value) Value { return in.tb.Or(a[0].(*Term), a[1].(*Term)) }
	case "vimplies":
		return func(in *Interp, fr *frame, a []Value) Value { return in.tb.Implies(a[0].(*Term), a[1].(*Term)) }
	case "vbytesEq":
		return func(in *Interp, fr *frame, a []Value) Value { return in.bytesEq(a[0].(Slice), a[1].(Slice)) }
	case "vfreeze":
		return func(in *Interp, fr *frame, a []Value) Value {
			if in.frozen == nil {
				in.frozen = map[*Value]bool{}
			}
			in.collectCells(a[0], in.frozen, 0)
			return nil
		}
	case "vthaw":
		return func(in *Interp, fr *frame, a []Value) Value {
			in.frozen = nil
			return nil
		}
	case "vconcU64", "vconcInt":
		return func(in *Interp, fr *frame, a []Value) Value {
			t := a[0].(*Term)
			if t.S.K == KInt {
				if t.IsConst() {
					return t
				}
				return in.mkInt(int64(in.chooseValue(in.tb.Int2BV(t, 64), "vconc")))
			}
			return in.tb.BVConst(int(t.S.W), in.chooseValue(t, "vconc"))
		}
	case "vnondetRange":
		return func(in *Interp, fr *frame, a []Value) Value {
			tag := concStr(a[0])
			lo, hi := a[1].(*Term), a[2].(*Term)
			if in.intMode {
				t := in.intSym(tag, lo.BigVal(), hi.BigVal())
				in.nondets = append(in.nondets, NondetRec{Tag: tag, Kind: "u64", Terms: []*Term{t}})
				return t
			}
			t := in.nondetScalar(tag, "u64", 64)
			in.assume(in.tb.And(in.tb.Cmp(OUle, lo, t), in.tb.Cmp(OUle, t, hi)))
			return t
		}
	case "vcap":
		return func(in *Interp, fr *frame, a []Value) Value {
			in.capOblig, in.capExplore = int64(concInt(a[0])), int64(concInt(a[1]))
			return nil
		}
	case "vunwindCut":
		return func(in *Interp, fr *frame, a []Value) Value {
			in.unwindCut = concInt(a[0])
			return nil
		}
	case "vparam":
		return func(in *Interp, fr *frame, a []Value) Value {
			name, def := concStr(a[0]), concInt(a[1])
			if v, ok := in.cfg.Params[name]; ok {
				def = v
			}
			return in.mkInt(int64(def))
		}
	case "vshared":
		return func(in *Interp, fr *frame, a []Value) Value {
			if in.race == nil {
				in.race = &raceState{cells: map[*Value]string{}, maps: map[*Map]string{}, enabled: true}
			}
			in.raceShare(a[0], concStr(a[1]), 0)
			return nil
		}
	case "vthread":
		return func(in *Interp, fr *frame, a []Value) Value {
			if in.race == nil {
				in.race = &raceState{cells: map[*Value]string{}, maps: map[*Map]string{}, enabled: true}
			}
			in.race.thread = concInt(a[0])
			return nil
		}
	case "vraceCheck":
		return func(in *Interp, fr *frame, a []Value) Value {
			in.race.thread = 0
			in.raceCheck(fr)
			return nil
		}
	case "vsameArray":
		// do two slices share their backing array cell at index 0? (aliasing probe)
		return func(in *Interp, fr *frame, a []Value) Value {
			x, y := a[0].(Slice), a[1].(Slice)
			if cap(x.A) == 0 || cap(y.A) == 0 {
				return in.tb.False
			}
			return in.tb.Bool(&x.A[:1][0] == &y.A[:1][0])
		}
	}
	return nil
}

func (in *Interp) assume(c *Term) {
	if c.IsTrue() {
		return
	}
	if c.IsFalse() {
		panic(pathEnd{"assume"})
	}
	if in.dpos < len(in.decisions) {
		d := in.decisions[in.dpos]
		in.dpos++
		if d.Kind != 'a' {
			panic(engineAbort{"replay divergence: expected assume"})
		}
		in.addPC(c)
		return
	}
	if in.sol.CheckWith(c) == Unsat {
		panic(pathEnd{"assume"})
	}
	in.record(Decision{Kind: 'a'})
	in.addPC(c)
}

// collectCells gathers the addresses of all cells reachable from v.
func (in *Interp) collectCells(v Value, set map[*Value]bool, depth int) {
	if depth > 64 {
		return
	}
	switch v := v.(type) {
	case Iface:
		in.collectCells(v.V, set, depth+1)
	case *Value:
		if v == nil || set[v] {
			return
		}
		set[v] = true
		in.collectInner(v, set, depth+1)
	case Slice:
		full := v.A[:cap(v.A)]
		for i := range full {
			if !set[&full[i]] {
				set[&full[i]] = true
				in.collectInner(&full[i], set, depth+1)
			}
		}
	case Struct:
		for i := range v {
			in.collectCells(v[i], set, depth+1)
		}
	case Array:
		for i := range v {
			in.collectCells(v[i], set, depth+1)
		}
	}
}

func (in *Interp) collectInner(p *Value, set map[*Value]bool, depth int) {
	switch c := (*p).(type) {
	case Struct:
		for i := range c {
			set[&c[i]] = true
			in.collectInner(&c[i], set, depth+1)
		}
	case Array:
		for i := range c {
			set[&c[i]] = true
			in.collectInner(&c[i], set, depth+1)
		}
	default:
		in.collectCells(c, set, depth+1)
	}
}

// int-mode arithmetic: see intmode.go

// collectAll gathers every cell and map reachable from v (used for the shared package-level state).
func (in *Interp) collectAll(v Value, cells map[*Value]bool, maps map[*Map]bool, depth int) {
	if depth > 200 {
		return
	}
	switch v := v.(type) {
	case Iface:
		in.collectAll(v.V, cells, maps, depth+1)
	case *Value:
		if v == nil || cells[v] {
			return
		}
		cells[v] = true
		in.collectAllInner(v, cells, maps, depth+1)
	case Slice:
		full := v.A[:cap(v.A)]
		for i := range full {
			if !cells[&full[i]] {
				cells[&full[i]] = true
				in.collectAllInner(&full[i], cells, maps, depth+1)
			}
		}
	case Struct:
		for i := range v {
			in.collectAll(v[i], cells, maps, depth+1)
		}
	case Array:
		for i := range v {
			in.collectAll(v[i], cells, maps, depth+1)
		}
	case *Map:
		if v == nil || maps[v] {
			return
		}
		maps[v] = true
		for _, e := range v.entries {
			in.collectAll(e.K, cells, maps, depth+1)
			in.collectAll(e.V, cells, maps, depth+1)
		}
	case *Closure:
		if v != nil {
			for _, e := range v.Env {
				in.collectAll(e, cells, maps, depth+1)
			}
		}
	case *Opaque:
		if v != nil {
			in.collectAll(v.Cause, cells, maps, depth+1)
		}
	}
}

func (in *Interp) collectAllInner(p *Value, cells map[*Value]bool, maps map[*Map]bool, depth int) {
	switch c := (*p).(type) {
	case Struct:
		for i := range c {
			cells[&c[i]] = true
			in.collectAllInner(&c[i], cells, maps, depth+1)
		}
	case Array:
		for i := range c {
			cells[&c[i]] = true
			in.collectAllInner(&c[i], cells, maps, depth+1)
		}
	default:
		in.collectAll(c, cells, maps, depth+1)
	}
}

type typesVar = types.Var
