package main

import "golang.org/x/crypto/ripemd160"

func ripemd160Sum(b []byte) []byte {
	h := ripemd160.New()
	h.Write(b)
	return h.Sum(nil)
}
