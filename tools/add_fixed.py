#!/usr/bin/env python3
"""add_fixed.py <prop> <commit> <harness> <label> <what> <line-detail> — append a 'fixed' entry to known_findings.json"""
import json, sys
prop, commit, harness, label, what, detail = sys.argv[1:7]
k = json.load(open('/verif/known_findings.json'))
k.append({"property": prop, "status": "fixed", "commit": commit, "harness": harness, "label": label, "what": what,
          "line": "fixed: property=%s %s %s" % (prop, commit, detail)})
json.dump(k, open('/verif/known_findings.json', 'w'), indent=1)
