package ord

import (
	"context"
	"encoding/hex"

	"github.com/libsv/go-bk/bec"
	"github.com/libsv/go-bk/crypto"
	"github.com/libsv/go-bt/v2"
	"github.com/libsv/go-bt/v2/bscript"
	"github.com/libsv/go-bt/v2/bscript/interpreter"
	"github.com/libsv/go-bt/v2/unlocker"
)

func vkey(tag string) (*bec.PrivateKey, *bscript.Script) {
	kb := vnondetBytes(tag, 32, 32)
	vassume(kb[0] >= 1 && kb[0] <= 0x7f)
	priv, _ := bec.PrivKeyFromBytes(bec.S256(), kb)
	s := bscript.Script{bscript.OpDUP, bscript.OpHASH160, bscript.OpDATA20}
	s = append(s, crypto.Hash160(priv.PubKey().SerialiseCompressed())...)
	s = append(s, bscript.OpEQUALVERIFY, bscript.OpCHECKSIG)
	return priv, &s
}

func vutxo(tag string, lock *bscript.Script, u bt.Unlocker, lo, hi uint64) *bt.UTXO {
	return &bt.UTXO{TxID: vnondetBytes(tag+"-txid", 32, 32), Vout: vnondetU32(tag + "-vout"), LockingScript: lock,
		Satoshis: vnondetRange(tag+"-sats", lo, hi), Unlocker: &u}
}

func vquoteC() *bt.FeeQuote {
	fq := bt.NewFeeQuote()
	k := vnondetLen("feequote", 0, vparam("FQ", 1))
	if k == 1 {
		fq.AddQuote(bt.FeeTypeStandard, &bt.Fee{FeeType: bt.FeeTypeStandard, MiningFee: bt.FeeUnit{Satoshis: 2, Bytes: 1}})
		fq.AddQuote(bt.FeeTypeData, &bt.Fee{FeeType: bt.FeeTypeData, MiningFee: bt.FeeUnit{Satoshis: 1, Bytes: 3}})
	}
	return fq
}

// vverifyAll: every input of tx is accepted by the interpreter for its spent output.
func vverifyAll(tx *bt.Tx, prevs []*bt.Output) bool {
	ok := true
	for i := range tx.Inputs {
		err := interpreter.NewEngine().Execute(interpreter.WithTx(tx, i, prevs[i]), interpreter.WithForkID(), interpreter.WithAfterGenesis())
		ok = ok && err == nil
	}
	return ok
}

func vsums(tx *bt.Tx) (in, out uint64) {
	for _, i := range tx.Inputs {
		in += i.PreviousTxSatoshis
	}
	for _, o := range tx.Outputs {
		out += o.Satoshis
	}
	return
}

// C20-O1: list an ordinal for sale, accept the listing.
func VH_C20_ListAccept() {
	ctx := context.Background()
	sellerKey, sellerLock := vkey("seller-key")
	buyerKey, buyerLock := vkey("buyer-key")
	sellerU := bt.Unlocker(&unlocker.Simple{PrivateKey: sellerKey})
	buyerU := bt.Unlocker(&unlocker.Simple{PrivateKey: buyerKey})
	price := vnondetRange("price", 1, 1000000000)
	ordUTXO := &bt.UTXO{TxID: vnondetBytes("ord-txid", 32, 32), Vout: vnondetU32("ord-vout"), LockingScript: sellerLock, Satoshis: 1}
	sellerOut := &bt.Output{Satoshis: price, LockingScript: sellerLock}
	pstx, err := ListOrdinalForSale(ctx, &ListOrdinalArgs{SellerReceiveOutput: sellerOut, OrdinalUTXO: ordUTXO, OrdinalUnlocker: sellerU})
	vassert(err == nil, "C20: listing succeeds")
	if err != nil {
		return
	}
	n := vnondetLen("nutxos", vparam("UMIN", 2), vparam("U", 2)) // UMIN=4: more inputs than outputs
	var utxos []*bt.UTXO
	for i := 0; i < n; i++ {
		utxos = append(utxos, vutxo("fund", buyerLock, buyerU, 0, 2000000000))
	}
	_, dummyLock := vkey("dummy-key")
	_, changeLock := vkey("change-key")
	fq := vquoteC()
	tx, err := AcceptOrdinalSaleListing(ctx, &ValidateListingArgs{ListedOrdinalUTXO: ordUTXO},
		&AcceptListingArgs{PSTx: pstx, UTXOs: utxos, BuyerReceiveOrdinalScript: buyerLock, DummyOutputScript: dummyLock, ChangeScript: changeLock, FQ: fq})
	if err != nil {
		vreach("list-accept-error")
		return
	}
	// spent outputs, in input order: first funding utxo, the ordinal, the other funding utxos
	vassert(len(tx.Inputs) == n+1 && len(tx.Outputs) >= 3, "C20: listing acceptance has the expected shape")
	prevs := make([]*bt.Output, len(tx.Inputs))
	for i, in := range tx.Inputs {
		prevs[i] = &bt.Output{Satoshis: in.PreviousTxSatoshis, LockingScript: in.PreviousTxScript}
	}
	vassert(vbytesEq(tx.Inputs[1].PreviousTxID(), ordUTXO.TxID) && tx.Inputs[1].PreviousTxOutIndex == ordUTXO.Vout, "C20: the ordinal is input 1")
	prevs[1] = &bt.Output{Satoshis: 1, LockingScript: sellerLock}
	vassert(vverifyAll(tx, prevs), "C20: every input of the accepted listing verifies")
	vassert(tx.Outputs[1].Satoshis == price && vbytesEq(*tx.Outputs[1].LockingScript, *sellerLock), "C20: seller payment output unchanged at the committed index")
	// FIFO: the ordinal satoshi (first satoshi of input 1) lands in output 2
	vassert(tx.Outputs[0].Satoshis+tx.Outputs[1].Satoshis == tx.Inputs[0].PreviousTxSatoshis, "C20: satoshis before the buyer output equal satoshis before the ordinal input")
	vassert(tx.Outputs[2].Satoshis == 1 && vbytesEq(*tx.Outputs[2].LockingScript, *buyerLock), "C20: ordinal satoshi routed to the buyer script")
	in, out := vsums(tx)
	fees, ferr := tx.EstimateFeesPaid(fq)
	vassert(ferr == nil && in >= out && in-out >= fees.TotalFeePaid, "C20: accepted listing pays at least the quoted fee")
	vreach("list-accept-ok")
}

// C20-O2: make a bid, accept the bid.
func VH_C20_BidAccept() {
	ctx := context.Background()
	sellerKey, sellerLock := vkey("seller-key")
	buyerKey, buyerLock := vkey("buyer-key")
	sellerU := bt.Unlocker(&unlocker.Simple{PrivateKey: sellerKey})
	buyerU := bt.Unlocker(&unlocker.Simple{PrivateKey: buyerKey})
	bid := vnondetRange("bid", 1, 1000000000)
	ordTxID := vnondetBytes("ord-txid", 32, 32)
	ordUTXO := &bt.UTXO{TxID: ordTxID, Vout: vnondetU32("ord-vout"), LockingScript: sellerLock, Satoshis: 1}
	n := vnondetLen("nutxos", 2, vparam("U", 2))
	var utxos []*bt.UTXO
	for i := 0; i < n; i++ {
		utxos = append(utxos, vutxo("fund", buyerLock, buyerU, 0, 2000000000))
	}
	_, dummyLock := vkey("dummy-key")
	_, changeLock := vkey("change-key")
	fq := vquoteC()
	pstx, err := MakeBidToBuy1SatOrdinal(ctx, &MakeBidArgs{BidAmount: bid, OrdinalTxID: hex.EncodeToString(ordTxID), OrdinalVOut: ordUTXO.Vout,
		BidderUTXOs: utxos, BuyerReceiveOrdinalScript: buyerLock, DummyOutputScript: dummyLock, ChangeScript: changeLock, FQ: fq})
	if err != nil {
		vreach("bid-error")
		return
	}
	tx, err := AcceptBidToBuy1SatOrdinal(ctx, &ValidateBidArgs{OrdinalUTXO: ordUTXO, BidAmount: bid, ExpectedFQ: fq},
		&AcceptBidArgs{PSTx: pstx, SellerReceiveScript: sellerLock, OrdinalUnlocker: sellerU})
	if err != nil {
		return
	}
	vassert(len(tx.Inputs) == n+1 && len(tx.Outputs) >= 3, "C20: accepted bid has the expected shape")
	prevs := make([]*bt.Output, len(tx.Inputs))
	for i, in := range tx.Inputs {
		prevs[i] = &bt.Output{Satoshis: in.PreviousTxSatoshis, LockingScript: in.PreviousTxScript}
	}
	prevs[1] = &bt.Output{Satoshis: 1, LockingScript: sellerLock}
	vassert(vverifyAll(tx, prevs), "C20: every input of the accepted bid verifies")
	vassert(tx.Outputs[1].Satoshis == bid && vbytesEq(*tx.Outputs[1].LockingScript, *sellerLock), "C20: seller is paid the bid amount to the seller script")
	vassert(tx.Outputs[0].Satoshis+tx.Outputs[1].Satoshis == tx.Inputs[0].PreviousTxSatoshis, "C20: bid: satoshis before the buyer output equal satoshis before the ordinal input")
	vassert(tx.Outputs[2].Satoshis == 1 && vbytesEq(*tx.Outputs[2].LockingScript, *buyerLock), "C20: bid: ordinal satoshi routed to the buyer script")
	in, out := vsums(tx)
	fees, ferr := tx.EstimateFeesPaid(fq)
	vassert(ferr == nil && in >= out && in-out >= fees.TotalFeePaid, "C20: accepted bid pays at least the quoted fee")
	vreach("bid-accept-ok")
}

func vinscLen(tag string) int {
	return []int{0, 1, 2, 75, 76, 255, 256, 65535, 65536}[vnondetLen(tag, 0, []int{2, 6, 8}[vparam("BIG", 0)])]
}

// C20-O3: Inscribe then ParseInscription returns the same content type, data and prefix.
func VH_C20_Inscribe() {
	_, lock := vkey("owner-key")
	ct := vnondetBytes("content-type", 1, 2)
	for _, c := range ct {
		vassume(c >= 0x20 && c < 0x7f)
	}
	dl := vinscLen("datalen")
	var data []byte
	if dl <= 256 {
		data = vnondetBytes("data", dl, dl)
	} else {
		// long payloads: symbolic first and last two bytes around a concrete filler (a parser that loses
		// the push boundary then walks concrete single-byte opcodes instead of forking on every byte)
		data = make([]byte, dl)
		for i := range data {
			data[i] = bscript.Op1
		}
		copy(data, vnondetBytes("data-head", 2, 2))
		copy(data[dl-2:], vnondetBytes("data-tail", 2, 2))
	}
	tx := bt.NewTx()
	err := tx.Inscribe(&bscript.InscriptionArgs{LockingScriptPrefix: lock, Data: data, ContentType: string(ct)})
	vassert(err == nil && len(tx.Outputs) == 1, "C20: Inscribe adds one output")
	if err != nil || len(tx.Outputs) != 1 {
		return
	}
	ia, err := tx.Outputs[0].LockingScript.ParseInscription()
	if dl == 0 {
		// an empty payload is pushed as a zero-length push
		vreach("inscribe-empty")
	}
	vassert(err == nil, "C20: inscription parses back")
	if err == nil {
		if dl == 0 {
			vassert(vbytesEq(ia.Data, data), "C20: inscription data preserved (empty payload)")
		} else {
			vassert(vbytesEq(ia.Data, data), "C20: inscription data preserved")
		}
		vassert(ia.ContentType == string(ct), "C20: inscription content type preserved")
		vassert(vbytesEq(*ia.LockingScriptPrefix, *lock), "C20: inscription prefix preserved")
	}
	vreach("inscribe-done")
}

// C20-I2: two inscriptions made with one prefix object (an address script as the library's own
// constructor builds it, spare capacity included): the second call must not disturb the first
// output, nor the caller's prefix.
func VH_C20_InscribeTwice() {
	h := vnondetBytes("pkh", 20, 20)
	lock, err := bscript.NewP2PKHFromPubKeyHash(h)
	vassume(err == nil)
	prefixGhost := append([]byte{}, *lock...)
	tx := bt.NewTx()
	var cts [2][]byte
	var datas [2][]byte
	for i := 0; i < 2; i++ {
		cts[i] = vnondetBytes("content-type", 1, 1)
		vassume(cts[i][0] >= 0x20 && cts[i][0] < 0x7f)
		datas[i] = vnondetBytes("data", 1, 2)
		err := tx.Inscribe(&bscript.InscriptionArgs{LockingScriptPrefix: lock, Data: datas[i], ContentType: string(cts[i])})
		vassert(err == nil && len(tx.Outputs) == i+1, "C20: twice: Inscribe adds one output")
		if err != nil || len(tx.Outputs) != i+1 {
			return
		}
	}
	vassert(vbytesEq(*lock, prefixGhost), "C20: twice: the caller's prefix script is unchanged")
	for i := 0; i < 2; i++ {
		ia, err := tx.Outputs[i].LockingScript.ParseInscription()
		vassert(err == nil, "C20: twice: inscription parses back")
		if err == nil {
			vassert(vand(vbytesEq(ia.Data, datas[i]), ia.ContentType == string(cts[i])), "C20: twice: each output keeps its own content type and data")
			vassert(vbytesEq(*ia.LockingScriptPrefix, prefixGhost), "C20: twice: each output keeps the prefix")
		}
	}
	vreach("inscribe-twice-done")
}

// C20-O1b: the two-dummy variant of accepting a listing: inputs [dummy, dummy, ordinal, payment...],
// outputs [dummies passed through, buyer's ordinal, seller payment, change].
func VH_C20_ListAccept2D() {
	ctx := context.Background()
	sellerKey, sellerLock := vkey("seller-key")
	buyerKey, buyerLock := vkey("buyer-key")
	sellerU := bt.Unlocker(&unlocker.Simple{PrivateKey: sellerKey})
	buyerU := bt.Unlocker(&unlocker.Simple{PrivateKey: buyerKey})
	price := vnondetRange("price", 1, 1000000000)
	ordUTXO := &bt.UTXO{TxID: vnondetBytes("ord-txid", 32, 32), Vout: vnondetU32("ord-vout"), LockingScript: sellerLock, Satoshis: 1}
	sellerOut := &bt.Output{Satoshis: price, LockingScript: sellerLock}
	pstx, err := ListOrdinalForSale(ctx, &ListOrdinalArgs{SellerReceiveOutput: sellerOut, OrdinalUTXO: ordUTXO, OrdinalUnlocker: sellerU})
	vassert(err == nil, "C20: listing succeeds")
	if err != nil {
		return
	}
	n := vnondetLen("nutxos", 3, vparam("U2", 3))
	var utxos []*bt.UTXO
	for i := 0; i < n; i++ {
		utxos = append(utxos, vutxo("fund", buyerLock, buyerU, 0, 2000000000))
	}
	_, dummyLock := vkey("dummy-key")
	_, changeLock := vkey("change-key")
	fq := vquoteC()
	tx, err := AcceptOrdinalSaleListing2Dummies(ctx, &ValidateListingArgs{ListedOrdinalUTXO: ordUTXO},
		&AcceptListingArgs{PSTx: pstx, UTXOs: utxos, BuyerReceiveOrdinalScript: buyerLock, DummyOutputScript: dummyLock, ChangeScript: changeLock, FQ: fq})
	if err != nil {
		vreach("list2d-accept-error")
		return
	}
	vassert(len(tx.Inputs) == n+1 && len(tx.Outputs) >= 3, "C20: two-dummy listing acceptance has the expected shape")
	prevs := make([]*bt.Output, len(tx.Inputs))
	for i, in := range tx.Inputs {
		prevs[i] = &bt.Output{Satoshis: in.PreviousTxSatoshis, LockingScript: in.PreviousTxScript}
	}
	vassert(vbytesEq(tx.Inputs[2].PreviousTxID(), ordUTXO.TxID) && tx.Inputs[2].PreviousTxOutIndex == ordUTXO.Vout, "C20: two-dummy: the ordinal is input 2")
	prevs[2] = &bt.Output{Satoshis: 1, LockingScript: sellerLock}
	vassert(vverifyAll(tx, prevs), "C20: every input of the accepted two-dummy listing verifies")
	vassert(tx.Outputs[2].Satoshis == price && vbytesEq(*tx.Outputs[2].LockingScript, *sellerLock), "C20: two-dummy: seller payment output unchanged at the committed index")
	// FIFO: the ordinal satoshi (first satoshi of input 2) lands in output 1
	vassert(tx.Outputs[0].Satoshis == tx.Inputs[0].PreviousTxSatoshis+tx.Inputs[1].PreviousTxSatoshis, "C20: two-dummy: satoshis before the buyer output equal satoshis before the ordinal input")
	vassert(tx.Outputs[1].Satoshis == 1 && vbytesEq(*tx.Outputs[1].LockingScript, *buyerLock), "C20: two-dummy: ordinal satoshi routed to the buyer script")
	in, out := vsums(tx)
	fees, ferr := tx.EstimateFeesPaid(fq)
	vassert(ferr == nil && in >= out && in-out >= fees.TotalFeePaid, "C20: accepted two-dummy listing pays at least the quoted fee")
	vreach("list2d-accept-ok")
}

// C20-O2b: the two-dummy variant of bidding and accepting the bid.
func VH_C20_BidAccept2D() {
	ctx := context.Background()
	sellerKey, sellerLock := vkey("seller-key")
	buyerKey, buyerLock := vkey("buyer-key")
	sellerU := bt.Unlocker(&unlocker.Simple{PrivateKey: sellerKey})
	buyerU := bt.Unlocker(&unlocker.Simple{PrivateKey: buyerKey})
	bid := vnondetRange("bid", 1, 1000000000)
	ordTxID := vnondetBytes("ord-txid", 32, 32)
	ordUTXO := &bt.UTXO{TxID: ordTxID, Vout: vnondetU32("ord-vout"), LockingScript: sellerLock, Satoshis: 1}
	n := vnondetLen("nutxos", 3, vparam("U2", 3))
	var utxos []*bt.UTXO
	for i := 0; i < n; i++ {
		utxos = append(utxos, vutxo("fund", buyerLock, buyerU, 0, 2000000000))
	}
	_, dummyLock := vkey("dummy-key")
	_, changeLock := vkey("change-key")
	fq := vquoteC()
	pstx, err := MakeBidToBuy1SatOrdinal2Dummies(ctx, &MakeBid2DArgs{BidAmount: bid, OrdinalTxID: hex.EncodeToString(ordTxID), OrdinalVOut: ordUTXO.Vout,
		BidderUTXOs: utxos, BuyerReceiveOrdinalScript: buyerLock, DummyOutputScript: dummyLock, ChangeScript: changeLock, FQ: fq})
	if err != nil {
		vreach("bid2d-error")
		return
	}
	// what the seller knows about the spent outputs, in input order
	prevU := []*bt.UTXO{utxos[0], utxos[1], ordUTXO}
	prevU = append(prevU, utxos[2:]...)
	tx, err := AcceptBidToBuy1SatOrdinal2Dummies(ctx, &ValidateBid2DArgs{PreviousUTXOs: prevU, BidAmount: bid, ExpectedFQ: fq},
		&AcceptBid2DArgs{PSTx: pstx, SellerReceiveOrdinalScript: sellerLock, OrdinalUnlocker: sellerU})
	if err != nil {
		vreach("bid2d-accept-error")
		return
	}
	vassert(len(tx.Inputs) == n+1 && len(tx.Outputs) >= 3, "C20: accepted two-dummy bid has the expected shape")
	prevs := make([]*bt.Output, len(tx.Inputs))
	for i := range tx.Inputs {
		prevs[i] = &bt.Output{Satoshis: prevU[i].Satoshis, LockingScript: prevU[i].LockingScript}
	}
	vassert(vverifyAll(tx, prevs), "C20: every input of the accepted two-dummy bid verifies")
	vassert(tx.Outputs[2].Satoshis == bid && vbytesEq(*tx.Outputs[2].LockingScript, *sellerLock), "C20: two-dummy: seller is paid the bid amount to the seller script")
	vassert(tx.Outputs[0].Satoshis == prevU[0].Satoshis+prevU[1].Satoshis, "C20: two-dummy bid: satoshis before the buyer output equal satoshis before the ordinal input")
	vassert(tx.Outputs[1].Satoshis == 1 && vbytesEq(*tx.Outputs[1].LockingScript, *buyerLock), "C20: two-dummy bid: ordinal satoshi routed to the buyer script")
	var in, out uint64
	for _, u := range prevU {
		in += u.Satoshis
	}
	for _, o := range tx.Outputs {
		out += o.Satoshis
	}
	fees, ferr := tx.EstimateFeesPaid(fq)
	vassert(ferr == nil && in >= out && in-out >= fees.TotalFeePaid, "C20: accepted two-dummy bid pays at least the quoted fee")
	vreach("bid2d-accept-ok")
}

// C20-O2s: a bid funded from more UTXOs than the bid transaction has outputs (N funding UTXOs:
// N+1 inputs against at most four outputs). Outpoints are concrete (the digests over them are then
// computed, not uninterpreted); keys, amounts and the bid are symbolic.
func VH_C20_BidSurplus() {
	ctx := context.Background()
	sellerKey, sellerLock := vkey("seller-key")
	buyerKey, buyerLock := vkey("buyer-key")
	sellerU := bt.Unlocker(&unlocker.Simple{PrivateKey: sellerKey})
	buyerU := bt.Unlocker(&unlocker.Simple{PrivateKey: buyerKey})
	bid := vnondetRange("bid", 1, 1000)
	ordTxID := make([]byte, 32)
	ordTxID[0] = 0xee
	ordUTXO := &bt.UTXO{TxID: ordTxID, Vout: 0, LockingScript: sellerLock, Satoshis: 1}
	n := vparam("N", 4)
	var utxos []*bt.UTXO
	for i := 0; i < n; i++ {
		id := make([]byte, 32)
		id[0] = byte(i + 1)
		utxos = append(utxos, &bt.UTXO{TxID: id, Vout: uint32(i), LockingScript: buyerLock, Satoshis: vnondetRange("fund-sats", 300, 2000), Unlocker: &buyerU})
	}
	_, dummyLock := vkey("dummy-key")
	_, changeLock := vkey("change-key")
	fq := bt.NewFeeQuote()
	pstx, err := MakeBidToBuy1SatOrdinal(ctx, &MakeBidArgs{BidAmount: bid, OrdinalTxID: hex.EncodeToString(ordTxID), OrdinalVOut: 0,
		BidderUTXOs: utxos, BuyerReceiveOrdinalScript: buyerLock, DummyOutputScript: dummyLock, ChangeScript: changeLock, FQ: fq})
	if err != nil {
		vreach("surplus-bid-error")
		return
	}
	receive := sellerLock
	if vparam("RS", 0) > 0 {
		// the seller may name any receive script: one longer than the placeholder the bidder budgeted for
		// (one extra byte may still fit the rounded fee; 77 bytes never do)
		rs := []int{26, 35, 77}[vnondetLen("receive-len", 0, 2)]
		long := make(bscript.Script, rs)
		for i := range long {
			long[i] = bscript.Op1
		}
		receive = &long
	}
	tx, err := AcceptBidToBuy1SatOrdinal(ctx, &ValidateBidArgs{OrdinalUTXO: ordUTXO, BidAmount: bid, ExpectedFQ: fq},
		&AcceptBidArgs{PSTx: pstx, SellerReceiveScript: receive, OrdinalUnlocker: sellerU})
	if err != nil {
		return // the seller's side refused (fee no longer covered): nothing to check
	}
	vassert(len(tx.Inputs) == n+1, "C20: surplus: accepted bid has one input per funding UTXO plus the ordinal")
	sin, sout := vsums(tx)
	fees, ferr := tx.EstimateFeesPaid(fq)
	vassert(ferr == nil && sin >= sout && sin-sout >= fees.TotalFeePaid, "C20: surplus: accepted bid pays at least the quoted fee")
	prevs := make([]*bt.Output, len(tx.Inputs))
	for i, in := range tx.Inputs {
		prevs[i] = &bt.Output{Satoshis: in.PreviousTxSatoshis, LockingScript: in.PreviousTxScript}
	}
	prevs[1] = &bt.Output{Satoshis: 1, LockingScript: sellerLock}
	vassert(vverifyAll(tx, prevs), "C20: surplus: every input of the accepted bid verifies")
	vreach("surplus-accept-ok")
}
