package bscript

import "encoding/hex"

func refHex2(v int) string { return hex.EncodeToString([]byte{byte(v)}) }

func vbip(l int) BIP276 {
	b := BIP276{Version: int(vnondetU8("version")), Network: int(vnondetU8("network")), Data: vnondetBytes("data", 0, l)}
	vassume(b.Version >= 1 && b.Network >= 1)
	b.Prefix = PrefixScript
	if vnondetBool("template") {
		b.Prefix = PrefixTemplate
	}
	return b
}

// C17-A: encode -> decode returns the same fields.
func VH_C17_RoundTrip() {
	b := vbip(vparam("L", 2))
	text := EncodeBIP276(b)
	d, err := DecodeBIP276(text)
	vassert(err == nil, "C17: own encoding decodes")
	if err != nil {
		return
	}
	vassert(d.Prefix == b.Prefix, "C17: prefix preserved")
	vassert(vand(d.Version == b.Version, d.Network == b.Network), "C17: version and network preserved")
	vassert(vbytesEq(d.Data, b.Data), "C17: data preserved")
	ok, _ := ValidateAddress(text)
	if b.Prefix == PrefixScript {
		vassert(ok, "C17: ValidateAddress accepts a bitcoin-script string that decodes")
	}
	vreach("c17-roundtrip")
}

// C17-B: the text follows the BIP layout: prefix ":" VV NN hex(data) checksum(8 hex digits).
func VH_C17_Layout() {
	b := vbip(vparam("L", 2))
	text := EncodeBIP276(b)
	payload := b.Prefix + ":" + refHex2(b.Version) + refHex2(b.Network) + hex.EncodeToString(b.Data)
	want := payload + hex.EncodeToString(sha256dRef([]byte(payload))[:4])
	vassert(len(text) == len(want), "C17: text has the specified length")
	vassert(text[:len(b.Prefix)+1] == want[:len(b.Prefix)+1], "C17: prefix and colon")
	vassert(text[len(b.Prefix)+5:len(payload)] == want[len(b.Prefix)+5:len(payload)], "C17: hex data in place")
	vassert(text[len(b.Prefix)+1:len(b.Prefix)+5] == want[len(b.Prefix)+1:len(b.Prefix)+5], "C17: two hex digits of version then two hex digits of network")
	vreach("c17-layout")
}

// C17-C: a text of the right layout whose checksum characters are wrong, or whose layout is
// broken by one character, is rejected; ValidateAddress agrees with DecodeBIP276.
func VH_C17_Reject() {
	b := vbip(vparam("L", 1))
	text := []byte(EncodeBIP276(b))
	n := len(text)
	switch vnondetLen("corruption", 0, 4) {
	case 4: // one hex digit inserted into the data field (anywhere from its start to just before the checksum): an odd number of data digits
		k := len(b.Prefix) + 5 + vnondetLen("inspos", 0, n-8-len(b.Prefix)-5)
		c := vnondetU8("inschar")
		vassume((c >= '0' && c <= '9') || (c >= 'a' && c <= 'f') || (c >= 'A' && c <= 'F'))
		t := append(append(append([]byte{}, text[:k]...), c), text[k:]...)
		_, err := DecodeBIP276(string(t))
		vassert(err != nil, "C17: odd number of data digits rejected")
		ok, _ := ValidateAddress(string(t))
		vassert(!ok || b.Prefix != PrefixScript, "C17: ValidateAddress rejects an odd number of data digits")
		vreach("c17-odd")
	case 3: // one or two non-hex characters appended after the checksum
		for i, m := 0, vnondetLen("tail-len", 1, 2); i < m; i++ {
			c := vnondetU8("tailchar")
			vassume(!((c >= '0' && c <= '9') || (c >= 'a' && c <= 'f') || (c >= 'A' && c <= 'F')))
			text = append(text, c)
		}
		_, err := DecodeBIP276(string(text))
		vassert(err != nil, "C17: text continuing after the checksum rejected")
		ok, _ := ValidateAddress(string(text))
		vassert(!ok || b.Prefix != PrefixScript, "C17: ValidateAddress rejects text continuing after the checksum")
		vreach("c17-tail")
	case 0: // one checksum character replaced by a different hex digit
		k := n - 8 + vnondetLen("ckpos", 0, 7)
		c := vnondetU8("ckchar")
		vassume((c >= '0' && c <= '9') || (c >= 'a' && c <= 'f') || (c >= 'A' && c <= 'F')) // incl. the other case of the same digit
		vassume(c != text[k])
		text[k] = c
		_, err := DecodeBIP276(string(text))
		vassert(err != nil, "C17: wrong checksum rejected")
		ok, _ := ValidateAddress(string(text))
		vassert(!ok || b.Prefix != PrefixScript, "C17: ValidateAddress rejects wrong checksum")
		vreach("c17-badchecksum")
	case 1: // a non-hex character anywhere after the colon
		k := len(b.Prefix) + 1 + vnondetLen("pos", 0, n-len(b.Prefix)-2)
		c := vnondetU8("badchar")
		vassume(!((c >= '0' && c <= '9') || (c >= 'a' && c <= 'f') || (c >= 'A' && c <= 'F')))
		vassume(c != '\n' && c != ':') // a second colon re-splits the text into another well-laid-out candidate whose acceptance hinges on a 32-bit checksum collision
		text[k] = c
		_, err := DecodeBIP276(string(text))
		vassert(err != nil, "C17: malformed layout rejected")
		ok, _ := ValidateAddress(string(text))
		vassert(!ok || b.Prefix != PrefixScript, "C17: ValidateAddress rejects malformed layout")
		vreach("c17-badlayout")
	case 2: // colon removed
		t := append(append([]byte{}, text[:len(b.Prefix)]...), text[len(b.Prefix)+1:]...)
		_, err := DecodeBIP276(string(t))
		vassert(err != nil, "C17: missing colon rejected")
		vreach("c17-nocolon")
	}
}
