#!/bin/bash
# wave-2 seeds not yet evaluated + re-evaluation of earlier inconclusive ones (scratch worktree)
cd /verif
run() { echo "== $*"; python3 tools/seed_eval.py "$@" --scratch 2>&1 | tail -25; }
run C18 /tmp/wt/C18/SEED/a C18-a
run C18 /tmp/wt/C18/SEED/b C18-b
run C19 /tmp/wt/C19/SEED/a C19-a
run C19 /tmp/wt/C19/SEED/b C19-b
run C05 /tmp/wt/C05/SEED/a C05-a --check-props C05,C08
run C05 /tmp/wt/C05/SEED/b C05-b
run C20 /tmp/wt/C20/SEED/a C20-a
run C20 /tmp/wt/C20/SEED/b C20-b
run C17 seeded/C17-a C17-a
run C17 seeded/C17-b C17-b
run C16 seeded/C16-a C16-a
run C16 seeded/C16-b C16-b
run C06 seeded/C06-a C06-a
run C06 seeded/C06-b C06-b
run C07 seeded/C07-b C07-b --check-props C07,C06
