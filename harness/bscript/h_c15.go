package bscript

import (
	"crypto/sha256"
	"encoding/hex"

	"github.com/libsv/go-bk/base58"
	"github.com/libsv/go-bk/bec"
	"github.com/libsv/go-bk/crypto"
)

func sha256dRef(b []byte) []byte {
	h1 := sha256.Sum256(b)
	h2 := sha256.Sum256(h1[:])
	return h2[:]
}

func refP2PKH(h []byte) []byte {
	s := []byte{0x76, 0xa9, 0x14}
	s = append(s, h...)
	return append(s, 0x88, 0xac)
}

// C15-A: derived addresses decode back; all constructors give the canonical script.
func VH_C15_RoundTrip() {
	h := vnondetBytes("hash", 20, 20)
	mainnet := vnondetBool("mainnet")
	a, err := NewAddressFromPublicKeyHash(h, mainnet)
	vassert(err == nil, "address from hash")
	if err != nil {
		return
	}
	a2, err := NewAddressFromString(a.AddressString)
	vassert(err == nil, "derived address decodes")
	if err != nil {
		return
	}
	hh, herr := hex.DecodeString(a2.PublicKeyHash)
	vassert(herr == nil && vbytesEq(hh, h), "derived address decodes back to the same hash")
	want := refP2PKH(h)
	s1, err := NewP2PKHFromPubKeyHash(h)
	vassert(err == nil && vbytesEq(*s1, want), "script from hash is the canonical 25-byte script")
	s2, err := NewP2PKHFromAddress(a.AddressString)
	vassert(err == nil && s2 != nil && vbytesEq(*s2, want), "script from address is the canonical 25-byte script")
	s3, err := NewP2PKHFromPubKeyHashStr(hex.EncodeToString(h))
	vassert(err == nil && vbytesEq(*s3, want), "script from hash string is canonical")
	vassert(s1.IsP2PKH(), "constructed script is P2PKH")
	pkh, err := s1.PublicKeyHash()
	vassert(err == nil && vbytesEq(pkh, h), "hash recovered from script")
	addrs, err := s1.Addresses()
	vassert(err == nil && len(addrs) == 1, "address recovered from script")
	if mainnet && err == nil && len(addrs) == 1 {
		vassert(addrs[0] == a.AddressString, "recovered address equals the derived mainnet address")
	}
	// from a 33-byte key
	k := vnondetBytes("key", 33, 33)
	sk, err := NewP2PKHFromPubKeyBytes(k)
	vassert(err == nil, "script from key")
	if err == nil {
		kh, _ := sk.PublicKeyHash()
		ak, err := NewAddressFromPublicKeyString(hex.EncodeToString(k), mainnet)
		vassert(err == nil, "address from key string")
		if err == nil {
			sa, err := NewP2PKHFromAddress(ak.AddressString)
			vassert(err == nil && sa != nil && vbytesEq(*sa, *sk), "key: script from address equals script from key")
			khh, _ := hex.DecodeString(ak.PublicKeyHash)
			vassert(vbytesEq(khh, kh), "key: address hash equals script hash")
		}
	}
	// from an elliptic-curve key object (ideal key model: the compressed encoding is a function of the key)
	kb := vnondetBytes("eckey", 32, 32)
	vassume(kb[0] >= 1 && kb[0] <= 0x7f)
	_, pub := bec.PrivKeyFromBytes(bec.S256(), kb)
	eh := crypto.Hash160(pub.SerialiseCompressed())
	ae, err := NewAddressFromPublicKey(pub, mainnet)
	vassert(err == nil, "address from EC key")
	if err == nil {
		ad, err := NewAddressFromString(ae.AddressString)
		vassert(err == nil, "EC key: derived address decodes")
		if err == nil {
			dh, _ := hex.DecodeString(ad.PublicKeyHash)
			vassert(vbytesEq(dh, eh), "EC key: derived address decodes back to the key hash")
		}
		se, err := NewP2PKHFromAddress(ae.AddressString)
		vassert(err == nil && se != nil && vbytesEq(*se, refP2PKH(eh)), "EC key: script from address is the canonical script of the key hash")
		sk2, err := NewP2PKHFromPubKeyEC(pub)
		vassert(err == nil && sk2 != nil && vbytesEq(*sk2, refP2PKH(eh)), "EC key: script from key is the canonical script of the key hash")
	}
	_, err = NewP2PKHFromPubKeyBytes(vnondetBytes("badkey", 32, 32))
	vassert(err != nil, "32-byte key rejected")
	vreach("roundtrip-done")
}

// C15-B: a Base58 string whose payload is not a well-formed Base58Check address payload
// (wrong length, unsupported version byte, or wrong checksum) is never accepted.
func VH_C15_Reject() {
	n := 24 + vnondetLen("len", 0, 2)
	d := vnondetBytes("payload", n, n)
	well := n == 25
	if well {
		ck := sha256dRef(d[:21])
		well = vand(vor(d[0] == 0x00, d[0] == 0x6f), vbytesEq(d[21:], ck[:4]))
	}
	s := base58.Encode(d)
	a, err := NewAddressFromString(s)
	sc, err2 := NewP2PKHFromAddress(s)
	if well {
		vassert(err == nil && err2 == nil, "well-formed payload accepted")
		if err == nil && err2 == nil {
			hh, _ := hex.DecodeString(a.PublicKeyHash)
			vassert(vbytesEq(hh, d[1:21]) && vbytesEq(*sc, refP2PKH(d[1:21])), "accepted address yields its hash")
		}
		vreach("reject-wellformed")
	} else {
		// the failure class is part of the label so that the known checksum finding does not mask others
		switch {
		case n != 25:
			vassert(err != nil, "NewAddressFromString rejects wrong-length payload")
			vassert(err2 != nil, "NewP2PKHFromAddress rejects wrong-length payload")
		case d[0] != 0x00 && d[0] != 0x6f:
			vassert(err != nil, "NewAddressFromString rejects unsupported version byte")
			vassert(err2 != nil, "NewP2PKHFromAddress rejects unsupported version byte")
		default:
			vassert(err != nil, "NewAddressFromString rejects wrong checksum")
			vassert(err2 != nil, "NewP2PKHFromAddress rejects wrong checksum")
		}
		vreach("reject-malformed")
	}
}

// ---- reference Base58Check decoder (independent of go-bt and go-bk) ----
const refAlphabet = "123456789ABCDEFGHJKLMNPQRSTUVWXYZabcdefghijkmnopqrstuvwxyz"

func refB58Decode(s string) ([]byte, bool) {
	var num []byte // big-endian magnitude
	zeros := 0
	lead := true
	for i := 0; i < len(s); i++ {
		d := -1
		for j := 0; j < len(refAlphabet); j++ {
			if refAlphabet[j] == s[i] {
				d = j
			}
		}
		if d < 0 {
			return nil, false
		}
		if lead && d == 0 {
			zeros++
			continue
		}
		lead = false
		carry := d
		for k := len(num) - 1; k >= 0; k-- {
			v := int(num[k])*58 + carry
			num[k] = byte(v)
			carry = v >> 8
		}
		for carry > 0 {
			num = append([]byte{byte(carry)}, num...)
			carry >>= 8
		}
	}
	return append(make([]byte, zeros), num...), true
}

// refAddressClass: 0 = well-formed, 1 = not Base58 / wrong length / unsupported version, 2 = only the checksum is wrong.
func refAddressClass(s string) int {
	d, ok := refB58Decode(s)
	if !ok || len(d) != 25 || (d[0] != 0x00 && d[0] != 0x6f) {
		return 1
	}
	ck := sha256dRef(d[:21])
	if d[21] == ck[0] && d[22] == ck[1] && d[23] == ck[2] && d[24] == ck[3] {
		return 0
	}
	return 2
}

func refWellFormedAddress(s string) bool { return refAddressClass(s) == 0 }

var vC15Addresses = []string{
	"1E7ucTTWRTahCyViPhxSMor2pj4VGQdFMr",
	"mtdruWYVEV1wz5yL7GvpBj4MgifCB7yhPd",
	"1111111111111111111114oLvT2", // all-zero hash: 21 leading zero bytes
}

// C15-C: every single-character substitution / insertion / deletion / transposition of valid
// addresses. The edited string is concrete on each path (the engine forks over position and
// character), so acceptance is decided by executing the real code against the reference decoder.
func VH_C15_Edits() {
	base := vC15Addresses[vnondetLen("addr", 0, vparam("ADDRS", len(vC15Addresses))-1)]
	vassert(refWellFormedAddress(base), "reference accepts the base address")
	b := []byte(base)
	pos := vnondetLen("pos", 0, len(b))
	var s []byte
	edit := vnondetLen("edit", 0, 5)
	if edit == 5 {
		// one character replaced by a two-byte UTF-8 character (both bytes symbolic): never Base58.
		// Only ValidateAddress is asked (it has its own Base58 arithmetic; go-bk's is an opaque model here).
		vassume(pos < len(b))
		u1, u2 := vnondetU8("utf8-lead"), vnondetU8("utf8-cont")
		vassume(u1 >= 0xc2 && u1 <= 0xdf && u2 >= 0x80 && u2 <= 0xbf)
		// the character whose code point has the replaced character as its low byte (the one a decoder that
		// confuses runes and bytes would take for it); any other non-ASCII character fails the checksum as
		// any wrong Base58 character does, which the single-byte substitutions already cover
		vassume(byte((uint16(u1&0x1f)<<6)|uint16(u2&0x3f)) == b[pos])
		s = append(append(append([]byte{}, b[:pos]...), u1, u2), b[pos+1:]...)
		ok, _ := ValidateAddress(string(s))
		vassert(!ok, "ValidateAddress rejects a non-ASCII character")
		vreach("edit-invalid")
		return
	}
	switch edit {
	case 0: // unchanged
		s = b
	case 1: // substitute
		vassume(pos < len(b))
		c := byte(vconcU64(uint64(vnondetU8("char"))))
		vassume(c >= 0x20 && c < 0x7f)
		s = append(append(append([]byte{}, b[:pos]...), c), b[pos+1:]...)
	case 2: // insert
		c := byte(vconcU64(uint64(vnondetU8("char"))))
		vassume(c >= 0x20 && c < 0x7f)
		s = append(append(append([]byte{}, b[:pos]...), c), b[pos:]...)
	case 3: // delete
		vassume(pos < len(b))
		s = append(append([]byte{}, b[:pos]...), b[pos+1:]...)
	case 4: // transpose
		vassume(pos+1 < len(b))
		s = append([]byte{}, b...)
		s[pos], s[pos+1] = s[pos+1], s[pos]
	}
	str := string(s)
	class := refAddressClass(str)
	want := class == 0
	ok, _ := ValidateAddress(str)
	vassert(ok == want, "ValidateAddress accepts exactly well-formed Base58Check addresses")
	_, err := NewAddressFromString(str)
	_, err2 := NewP2PKHFromAddress(str)
	if class == 2 {
		vassert(err != nil, "NewAddressFromString rejects an edited address with wrong checksum")
		vassert(err2 != nil, "NewP2PKHFromAddress rejects an edited address with wrong checksum")
	} else {
		vassert((err == nil) == want, "NewAddressFromString accepts exactly well-formed addresses (length/version/alphabet)")
		vassert((err2 == nil) == want, "NewP2PKHFromAddress accepts exactly well-formed addresses (length/version/alphabet)")
	}
	if want {
		vreach("edit-still-valid")
	} else {
		vreach("edit-invalid")
	}
}

// C15-D: every version byte on a payload with a correct checksum: accepted (by validation, by address
// decoding and by script construction) exactly for the two supported P2PKH versions. The version is
// concretised so that the address text is concrete and the library's own Base58 arithmetic runs.
func VH_C15_Versions() {
	ver := byte(vconcU64(uint64(vnondetU8("version"))))
	h := []byte{0x11, 0x22, 0x33, 0x44, 0x55, 0x66, 0x77, 0x88, 0x99, 0xaa, 0xbb, 0xcc, 0xdd, 0xee, 0xff, 0x01, 0x02, 0x03, 0x04, 0x05}
	if vnondetBool("zero-hash") {
		h = make([]byte, 20)
	}
	d := append([]byte{ver}, h...)
	d = append(d, sha256dRef(d)[:4]...)
	s := base58.Encode(d)
	want := ver == 0x00 || ver == 0x6f
	ok, _ := ValidateAddress(s)
	vassert(ok == want, "ValidateAddress accepts a checksummed payload exactly for the supported version bytes")
	_, err := NewAddressFromString(s)
	vassert((err == nil) == want, "NewAddressFromString accepts a checksummed payload exactly for the supported version bytes")
	_, err2 := NewP2PKHFromAddress(s)
	vassert((err2 == nil) == want, "NewP2PKHFromAddress accepts a checksummed payload exactly for the supported version bytes")
	vreach("versions-done")
}
