package main

import (
	"go/token"
	"go/types"
)

func (in *Interp) intNeg(t *Term, ty types.Type) Value { panic(engineAbort{"int mode: neg not implemented"}) }
func (in *Interp) intBin(fr *frame, op token.Token, t types.Type, a, b *Term, yt types.Type) Value {
	panic(engineAbort{"int mode not implemented"})
}
func (in *Interp) intConv(x *Term, src, dst *types.Basic) Value {
	panic(engineAbort{"int mode not implemented"})
}
