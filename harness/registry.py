# Registry: property -> harness runs. PKGS maps a harness directory to (package dir relative to /repo, package name).
PKGS = {
    "bt": (".", "bt"),
    "bscript": ("./bscript", "bscript"),
    "interpreter": ("./bscript/interpreter", "interpreter"),
    "ord": ("./ord", "ord"),
    "debug": ("./bscript/interpreter/debug", "debug"),
}

PROPS = {
    "C20": {
        "harnesses": [
            {"pkg": "ord", "name": "VH_C20_ListAccept", "quick": {"params": {"U": 2, "FQ": 0}}, "thorough": {"params": {"U": 3, "FQ": 1}}},
            {"pkg": "ord", "name": "VH_C20_BidAccept", "quick": {"params": {"U": 2, "FQ": 0}}, "thorough": {"params": {"U": 2, "FQ": 1}}},
            {"pkg": "ord", "name": "VH_C20_ListAccept2D", "quick": {"params": {"U2": 3, "FQ": 0}}, "thorough": {"params": {"U2": 4, "FQ": 1}}},
            {"pkg": "ord", "name": "VH_C20_BidAccept2D", "quick": {"params": {"U2": 3, "FQ": 0}}, "thorough": {"params": {"U2": 3, "FQ": 1}}},
            {"pkg": "ord", "name": "VH_C20_InscribeTwice"},
            {"pkg": "ord", "name": "VH_C20_BidSurplus", "quick": {"params": {"N": 4}}, "thorough": {"params": {"N": 4}}},
            {"pkg": "ord", "name": "VH_C20_BidSurplus", "quick": {"params": {"N": 4, "RS": 1}}, "thorough": {"params": {"N": 4, "RS": 1}}},
            {"pkg": "ord", "name": "VH_C20_Inscribe", "quick": {"params": {"BIG": 2}}, "thorough": {"params": {"BIG": 2}}},
        ],
        "assumptions": [],
    },
    "C06": {
        "harnesses": [
            {"pkg": "interpreter", "name": "VH_C06_CheckSig", "skip_label_prefix": "assert:C08", "quick": {"params": {"S": 1, "ERA": 0, "HT": 2}}, "thorough": {"params": {"S": 2, "ERA": 1, "HT": 2}}},
            {"pkg": "interpreter", "name": "VH_C06_CheckSig", "skip_label_prefix": "assert:C08", "quick": {"params": {"S": 0, "ERA": 0, "HT": 0, "UNC": 1}}, "thorough": {"params": {"S": 1, "ERA": 1, "HT": 1, "UNC": 1}}},
            {"pkg": "interpreter", "name": "VH_C06_Encoding", "quick": {"params": {"S": 0, "ERA": 0, "TRAIL": 0, "SLN": 2}}, "thorough": {"params": {"S": 0, "ERA": 0, "TRAIL": 0, "SLN": 6}}},
            {"pkg": "interpreter", "name": "VH_C06_LowS", "quick": {"params": {"S": 0, "ERA": 0, "TRAIL": 0, "HT": 0}}, "thorough": {"params": {"S": 0, "ERA": 1, "TRAIL": 0, "HT": 2}}},
            {"pkg": "interpreter", "name": "VH_C06_MultiSig", "quick": {"params": {"S": 0, "N": 2, "ERA": 0, "HT": 0, "TRAIL": 2}}, "thorough": {"params": {"S": 0, "N": 2, "ERA": 1, "HT": 1, "TRAIL": 2}}},
        ],
        "assumptions": [],
    },
    "C04": {
        "harnesses": [
            {"pkg": "interpreter", "name": "VH_C04_Accept", "quick": {"params": {"IN": 2, "OUT": 2}}, "thorough": {"params": {"IN": 3, "OUT": 3}}},
            {"pkg": "interpreter", "name": "VH_C04_Accept", "quick": {"params": {"IN": 1, "OUT": 1, "INSC": 1}}, "thorough": {"params": {"IN": 2, "OUT": 2, "INSC": 1}}},
            {"pkg": "interpreter", "name": "VH_C04_AcceptAll", "quick": {"params": {"IN": 2, "OUT": 2}}, "thorough": {"params": {"IN": 2, "OUT": 3}}},
            {"pkg": "interpreter", "name": "VH_C04_Commit", "quick": {"params": {"IN": 2, "OUT": 2}}, "thorough": {"params": {"IN": 2, "OUT": 3}}},
        ],
        "assumptions": [],
    },
    "C05": {
        "harnesses": [
            {"pkg": "interpreter", "name": "VH_C05_Opcode", "quick": {"params": {"D": 3, "K": 2, "A": 1, "U": 6, "KM": 1}}, "thorough": {"params": {"D": 4, "K": 2, "A": 1, "U": 8, "KM": 1}}},
            {"pkg": "interpreter", "name": "VH_C05_Opcode", "quick": {"params": {"D": 2, "K": 1, "BIGTOP": 9, "OPLO": 121, "OPHI": 128, "U": 4}}, "thorough": {"params": {"D": 3, "K": 1, "BIGTOP": 9, "OPLO": 121, "OPHI": 128, "U": 4}}},
            {"pkg": "interpreter", "name": "VH_C05_Opcode", "quick": {"params": {"D": 2, "K": 2, "BIGTOP": 9, "OPLO": 152, "OPHI": 153, "U": 4}}, "thorough": {"params": {"D": 3, "K": 3, "BIGTOP": 10, "OPLO": 152, "OPHI": 153, "U": 4}}},
            {"pkg": "interpreter", "name": "VH_C05_Opcode", "thorough_only": True, "thorough": {"params": {"D": 3, "K": 2, "X": 1, "ALIAS": 1, "U": 6, "KM": 1, "OPLO": 126, "OPHI": 165}}},
            {"pkg": "interpreter", "name": "VH_C05_Opcode", "quick": {"params": {"D": 1, "K": 1, "PUSHB": 1, "OPLO": 76, "OPHI": 78, "U": 4}}, "thorough": {"params": {"D": 2, "K": 1, "PUSHB": 1, "OPLO": 76, "OPHI": 78, "U": 4}}},
            {"pkg": "interpreter", "name": "VH_C05_Locktime", "quick": {"params": {"OPLO": 177, "OPHI": 178}}, "thorough": {"params": {"OPLO": 177, "OPHI": 178}}},
            {"pkg": "interpreter", "name": "VH_C05_Execute", "quick": {"params": {"L": 1, "LONG": 1}}, "thorough": {"params": {"L": 1, "HEAD": 1, "TAIL": 1, "LONG": 0, "EARLY": 0}}},
            {"pkg": "interpreter", "name": "VH_C05_Control", "quick": {"params": {"D": 1, "K": 1, "C": 2, "U": 4}}, "thorough": {"params": {"D": 2, "K": 1, "C": 3, "U": 4}}},
        ],
        "validate_tests": [{"pkg": "interpreter", "run": "TestVerifRefScripts"}],
        "assumptions": [],
    },
    "C18": {
        "harnesses": [
            {"pkg": "bt", "name": "VH_C18_FeeQuote"},
            {"pkg": "bt", "name": "VH_C18_FeeQuotes"},
            {"pkg": "interpreter", "name": "VH_C18_Engine", "require_no_shared_writes": True},
            {"pkg": "interpreter", "name": "VH_C07_ExecuteScripts", "require_no_shared_writes": True, "quick": {"params": {"L": 1, "LU": 0}}, "thorough": {"params": {"L": 2, "LU": 0}}},
        ],
        "assumptions": [],
    },
    "C16": {
        "harnesses": [
            {"pkg": "bt", "name": "VH_C16_TxJSON", "quick": {"params": {"IN": 1, "OUT": 1, "INSC": 0}}, "thorough": {"params": {"IN": 2, "OUT": 2, "INSC": 0}}},
            {"pkg": "bt", "name": "VH_C16_TxNodeJSON", "quick": {"params": {"IN": 1, "OUT": 1, "INSC": 0}}, "thorough": {"params": {"IN": 2, "OUT": 2, "INSC": 1}}},
            {"pkg": "bt", "name": "VH_C16_OutputUTXO", "fp_dual": True},
            {"pkg": "bt", "name": "VH_C16_TxsJSON", "quick": {"params": {"NTX": 2, "IN": 1, "OUT": 0, "INSC": 0}}, "thorough": {"params": {"NTX": 2, "IN": 1, "OUT": 1, "INSC": 0}}},
        ],
        "assumptions": [],
    },
    "C19": {
        "harnesses": [
            {"pkg": "interpreter", "name": "VH_C19_Step", "quick": {"params": {"D": 2, "K": 1, "C": 1, "U": 4}}, "thorough": {"params": {"D": 3, "K": 1, "C": 2, "U": 4}}},
            {"pkg": "interpreter", "name": "VH_C19_Execute", "quick": {"params": {"L": 1}}, "thorough": {"params": {"L": 1}}},
            {"pkg": "interpreter", "name": "VH_C19_P2SH", "quick": {"params": {"R": 1}}, "thorough": {"params": {"R": 1}}},
            {"pkg": "debug", "name": "VH_C19_DebugPkg", "quick": {"params": {"L": 1, "COND": 1, "USDATA": 0}}, "thorough": {"params": {"L": 1, "COND": 1, "USDATA": 1}}},
        ],
        "assumptions": [],
    },
    "C17": {
        "harnesses": [
            {"pkg": "bscript", "name": "VH_C17_RoundTrip", "quick": {"params": {"L": 2}}, "thorough": {"params": {"L": 6}}},
            {"pkg": "bscript", "name": "VH_C17_Layout", "quick": {"params": {"L": 2}}, "thorough": {"params": {"L": 6}}},
            {"pkg": "bscript", "name": "VH_C17_Reject", "quick": {"params": {"L": 1}}, "thorough": {"params": {"L": 3}}},
        ],
        "assumptions": [],
    },
    "C15": {
        "harnesses": [
            {"pkg": "bscript", "name": "VH_C15_RoundTrip"},
            {"pkg": "bscript", "name": "VH_C15_Reject"},
            {"pkg": "bscript", "name": "VH_C15_Versions"},
            {"pkg": "bscript", "name": "VH_C15_Edits", "quick": {"params": {"ADDRS": 2}}, "thorough": {"params": {"ADDRS": 3}}},
            {"pkg": "bt", "name": "VH_C15_TxOutputs"},
            {"pkg": "bt", "name": "VH_C15_TxReject"},
            {"pkg": "bt", "name": "VH_C15_TxRejectScript"},
            {"pkg": "bt", "name": "VH_C15_TxRejectKey"},
        ],
        "assumptions": [],
    },
    "C11": {
        "harnesses": [
            {"pkg": "bt", "name": "VH_C11_Accounting", "opts": {"int": True}, "quick": {"params": {"IN": 1, "OUT": 2, "S": 2, "DEN": 0}}, "thorough": {"params": {"IN": 2, "OUT": 3, "S": 2, "DEN": 1}}},
            {"pkg": "bt", "name": "VH_C11_CountBoundary", "opts": {"int": True}, "quick": {"params": {"DEN": 0}}, "thorough": {"params": {"DEN": 1}}},
            {"pkg": "bt", "name": "VH_C11_Estimate", "opts": {"int": True}, "quick": {"params": {"IN": 2, "SIGVAR": 2, "DEN": 0}}, "thorough": {"params": {"IN": 2, "SIGVAR": 40, "DEN": 1}}},
        ],
        "assumptions": [],
    },
    "C12": {
        "harnesses": [
            {"pkg": "bt", "name": "VH_C12_Fund", "opts": {"int": True}, "quick": {"params": {"CALLS": 2, "DEN": 0}}, "thorough": {"params": {"CALLS": 3, "DEN": 1}}},
        ],
        "assumptions": [],
    },
    "C10": {
        "harnesses": [
            {"pkg": "bt", "name": "VH_C10_Change", "opts": {"int": True}, "quick": {"params": {"IN": 1, "CSBIG": 1, "BOUNDARY": 1, "DEN": 0}}, "thorough": {"params": {"IN": 2, "CSBIG": 1, "BOUNDARY": 1, "DEN": 1}}},
        ],
        "assumptions": [],
    },
    "C13": {
        "harnesses": [
            {"pkg": "bscript", "name": "VH_C13_Parts", "quick": {"params": {"P": 2, "BIG": 1}}, "thorough": {"params": {"P": 3, "BIG": 1}}},
            {"pkg": "bscript", "name": "VH_C13_DecodeParts", "quick": {"params": {"L": 4}}, "thorough": {"params": {"L": 7}}},
            {"pkg": "bscript", "name": "VH_C13_HexJSON", "quick": {"params": {"L": 3}}, "thorough": {"params": {"L": 6}}},
            {"pkg": "bscript", "name": "VH_C13_ASM", "quick": {"params": {"E": 2, "PL": 3}}, "thorough": {"params": {"E": 2, "PL": 5}}},
            {"pkg": "interpreter", "name": "VH_C13_ParseUnparse", "quick": {"params": {"L": 2}}, "thorough": {"params": {"L": 2}}},
            {"pkg": "interpreter", "name": "VH_C13_ParsePush"},
            {"pkg": "interpreter", "name": "VH_C13_ParseReturn", "quick": {"params": {"T": 4}}, "thorough": {"params": {"T": 8}}},
        ],
        "assumptions": [],
    },
    "C14": {
        "harnesses": [
            {"pkg": "bscript", "name": "VH_C14_Inspect", "quick": {"params": {"L": 3}}, "thorough": {"params": {"L": 5}}},
            {"pkg": "bscript", "name": "VH_C14_Fixed"},
            {"pkg": "bscript", "name": "VH_C14_Templates"},
            {"pkg": "bscript", "name": "VH_C14_Render", "quick": {"params": {"E": 2}}, "thorough": {"params": {"E": 3}}},
        ],
        "assumptions": [],
    },
    "C08": {
        "harnesses": [
            {"pkg": "interpreter", "name": "VH_C08_Alias", "quick": {"params": {"K": 2, "KB": 4, "U": 6, "NUMERIC": 0}}, "thorough": {"params": {"K": 3, "KB": 5, "U": 8, "NUMERIC": 1}}},
            {"pkg": "interpreter", "name": "VH_C08_Twice"},
            # signature opcodes (with executed code separators): only the "transaction unchanged" assertion counts here
            {"pkg": "interpreter", "name": "VH_C06_CheckSig", "only_label_prefix": "assert:C08", "quick": {"params": {"S": 1, "ERA": 0, "HT": 1, "TRAIL": 0, "OUT2": 1}}, "thorough": {"params": {"S": 2, "ERA": 1, "HT": 1}}},
        ],
        "assumptions": [],
    },
    "C07": {
        "harnesses": [
            {"pkg": "interpreter", "name": "VH_C07_Step", "quick": {"params": {"D": 3, "K": 2, "A": 1, "C": 0, "TX": 0, "U": 6}}, "thorough": {"params": {"D": 6, "K": 3, "A": 1, "C": 0, "TX": 0, "U": 8}}},
            {"pkg": "interpreter", "name": "VH_C07_Step", "quick": {"params": {"D": 2, "K": 1, "BIGTOP": 9, "OPLO": 121, "OPHI": 128, "U": 4}}, "thorough": {"params": {"D": 3, "K": 1, "BIGTOP": 9, "OPLO": 121, "OPHI": 128, "U": 4}}},
            {"pkg": "interpreter", "name": "VH_C07_Step", "quick": {"params": {"D": 2, "K": 2, "BIGTOP": 9, "OPLO": 152, "OPHI": 153, "U": 4}}, "thorough": {"params": {"D": 3, "K": 3, "BIGTOP": 10, "OPLO": 152, "OPHI": 153, "U": 4}}},
            # the multisig opcodes with a key count of up to five bytes: allocations must be bounded by the stack, not by the count
            {"pkg": "interpreter", "name": "VH_C07_Step", "quick": {"params": {"D": 2, "K": 1, "BIGTOP": 5, "OPLO": 174, "OPHI": 175, "U": 4, "CAP": 65536, "SIGOPS": 1, "TX": 1, "X": 2}}, "thorough": {"params": {"X": 3, "D": 3, "K": 1, "BIGTOP": 9, "OPLO": 174, "OPHI": 175, "U": 4, "CAP": 65536, "SIGOPS": 1, "TX": 1}}},
            {"pkg": "interpreter", "name": "VH_C07_Step", "quick": {"params": {"D": 1, "K": 1, "UNLOCK": 1, "U": 4}}, "thorough": {"params": {"D": 2, "K": 1, "UNLOCK": 1, "U": 4}}},
            {"pkg": "interpreter", "name": "VH_C07_Execute"},
            {"pkg": "interpreter", "name": "VH_C07_ExecuteSig"},
            {"pkg": "interpreter", "name": "VH_C07_ExecuteScripts", "quick": {"params": {"L": 1, "LU": 0}}, "thorough": {"params": {"L": 2, "LU": 0}}},
            # the signature opcodes with arbitrary signature / key bytes: only the faults count here (the verdict is C06's subject)
            {"pkg": "interpreter", "name": "VH_C06_Encoding", "faults_only": True, "quick": {"params": {"S": 0, "ERA": 0, "TRAIL": 0, "SLN": 2}}, "thorough": {"params": {"S": 0, "ERA": 0, "TRAIL": 0, "SLN": 6}}},
        ],
        "assumptions": [],
    },
    "C02": {
        "harnesses": [
            {"pkg": "bt", "name": "VH_C02_Preimage", "quick": {"params": {"IN": 2, "OUT": 2, "S": 1}}, "thorough": {"params": {"IN": 3, "OUT": 3, "S": 1, "SCBIG": 1}}},
            {"pkg": "bt", "name": "VH_C02_History", "quick": {"params": {"IN": 2, "OUT": 2, "S": 0}}, "thorough": {"params": {"IN": 2, "OUT": 2, "S": 0, "ALLHT": 1}}},
        ],
        "validate_tests": [{"pkg": "bt", "run": "TestVerifRefValidate"}],
        "assumptions": [],
    },
    "C03": {
        "harnesses": [
            {"pkg": "bt", "name": "VH_C03_Legacy", "quick": {"params": {"IN": 2, "OUT": 2, "S": 1}}, "thorough": {"params": {"IN": 3, "OUT": 3, "S": 1, "SCBIG": 1}}},
            {"pkg": "bt", "name": "VH_C03_History", "quick": {"params": {"IN": 2, "OUT": 2, "S": 0}}, "thorough": {"params": {"IN": 2, "OUT": 2, "S": 0, "ALLHT": 1}}},
        ],
        "validate_tests": [{"pkg": "bt", "run": "TestVerifRefValidate"}],
        "assumptions": [],
    },
    "C09": {
        "harnesses": [
            {"pkg": "bt", "name": "VH_C09_Stream", "quick": {"params": {"N": 14}}, "thorough": {"params": {"N": 22}}},
            {"pkg": "bt", "name": "VH_C09_Bytes", "quick": {"params": {"N": 12}}, "thorough": {"params": {"N": 20}}},
            {"pkg": "bt", "name": "VH_C09_Reader", "quick": {"params": {"N": 12}}, "thorough": {"params": {"N": 18}}},
            {"pkg": "bt", "name": "VH_C09_Txs", "quick": {"params": {"N": 12}}, "thorough": {"params": {"N": 18}}},
            {"pkg": "bt", "name": "VH_C09_InputOutput", "quick": {"params": {"N": 12}}, "thorough": {"params": {"N": 48}}},
            {"pkg": "bt", "name": "VH_C09_Crafted", "quick": {"params": {"T": 2}}, "thorough": {"params": {"T": 6}}},
            {"pkg": "bt", "name": "VH_C09_CraftedTxs", "quick": {"params": {"T": 4}}, "thorough": {"params": {"T": 8}}},
            {"pkg": "bt", "name": "VH_C09_NodeJSONDocs"},
        ],
        "assumptions": [],
        "bounds": {"quick": "", "thorough": ""},
    },
    "C01": {
        "harnesses": [
            {"pkg": "bt", "name": "VH_C01_VarInt"},
            {"pkg": "bt", "name": "VH_C01_DecodeEncode", "quick": {"params": {"N": 16}}, "thorough": {"params": {"N": 24}}},
            {"pkg": "bt", "name": "VH_C01_EncodeDecode", "quick": {"params": {"IO": 2, "S": 1}}, "thorough": {"params": {"IO": 2, "S": 2}}},
            {"pkg": "bt", "name": "VH_C01_Boundary", "quick": {"params": {"BIG": 0}}, "thorough": {"params": {"BIG": 1}}},
            {"pkg": "bt", "name": "VH_C01_CountBoundary"},
            {"pkg": "bt", "name": "VH_C01_ListCount", "quick": {"params": {"BIG": 1}}, "thorough": {"params": {"BIG": 1}}},
            {"pkg": "bt", "name": "VH_C01_NonMinimal"},
        ],
        "assumptions": [],
        "bounds": {"quick": "", "thorough": ""},
    },
}
