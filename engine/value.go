package main

import (
	"fmt"
	"go/types"

	"golang.org/x/tools/go/ssa"
)

// Value is one of:
//
//	*Term                 scalar bool / integer / float
//	Str                   string (immutable)
//	*Value                pointer to a cell (nil = nil pointer)
//	Struct, Array         aggregates with value semantics
//	Slice                 slice header over []Value cells
//	*Map                  map (nil = nil map)
//	Iface                 interface value
//	*ssa.Function, *ssa.Builtin, *Closure   function values
//	Tuple                 multiple results
//	*Iter                 range iterator
//	SymRef                pointer to slice/array element with symbolic index
//	*Opaque               engine-native object (error values, big ints, handles)
type Value interface{}

type Str struct {
	S      string  // concrete content when B == nil
	B      []*Term // symbolic bytes (len = string length)
	Opaque bool    // content not modelled (formatted symbolic numbers etc.)
	B58    []Value // when set: this string is base58.Encode(B58) (opaque text, exact inverse)
}

type Struct []Value
type Array []Value
type Tuple []Value

type Slice struct {
	A []Value // nil = nil slice
}

type Iface struct {
	T types.Type
	V Value
}

type Closure struct {
	Fn  *ssa.Function
	Env []Value
}

type SymRef struct {
	Base []Value
	Idx  *Term // BV64 index, constrained in range by path condition
}

type mapKey struct {
	K int    // 0 = string, 1 = integer, 2 = pointer/other
	S string // string key
	U uint64
	P interface{}
}

type mapEntry struct {
	K, V    Value
	Deleted bool
}

type Map struct {
	idx     map[mapKey]int
	entries []mapEntry
	n       int
}

func newMap() *Map { return &Map{idx: map[mapKey]int{}} }

type Iter struct {
	kind int // 0 = string, 1 = map
	str  Str
	m    *Map
	pos  int
}

// Opaque is an engine-native object.
type Opaque struct {
	Kind string
	// error objects
	Msg   Str
	Cause Value // wrapped error (Iface) or nil
	// generic payload
	Data interface{}
}

func (s Str) Len() int {
	if s.B != nil {
		return len(s.B)
	}
	return len(s.S)
}

func (s Str) IsConcrete() bool {
	if s.Opaque {
		return false
	}
	if s.B == nil {
		return true
	}
	for _, b := range s.B {
		if !b.IsConst() {
			return false
		}
	}
	return true
}

func (s Str) Concrete() string {
	if s.B == nil {
		return s.S
	}
	bs := make([]byte, len(s.B))
	for i, b := range s.B {
		bs[i] = byte(b.C)
	}
	return string(bs)
}

// basicSort maps a Go basic type to a term sort.
func basicSort(t types.Type) (Sort, bool, bool) { // sort, signed, ok
	b, ok := t.Underlying().(*types.Basic)
	if !ok {
		return Sort{}, false, false
	}
	switch b.Kind() {
	case types.Bool, types.UntypedBool:
		return SBool, false, true
	case types.Int8:
		return BV(8), true, true
	case types.Int16:
		return BV(16), true, true
	case types.Int32, types.UntypedRune:
		return BV(32), true, true
	case types.Int, types.Int64, types.UntypedInt:
		return BV(64), true, true
	case types.Uint8:
		return BV(8), false, true
	case types.Uint16:
		return BV(16), false, true
	case types.Uint32:
		return BV(32), false, true
	case types.Uint, types.Uint64, types.Uintptr:
		return BV(64), false, true
	case types.Float64, types.UntypedFloat, types.Float32:
		return SFP, true, true
	}
	return Sort{}, false, false
}

func (in *Interp) zero(t types.Type) Value {
	switch t := t.(type) {
	case *types.Basic:
		if t.Kind() == types.UntypedNil {
			panic("untyped nil has no zero value")
		}
		if t.Info()&types.IsString != 0 {
			return Str{}
		}
		if t.Kind() == types.UnsafePointer {
			return (*Value)(nil)
		}
		s, _, ok := basicSort(t)
		if !ok {
			panic(engineAbort{fmt.Sprintf("zero: unsupported basic type %v", t)})
		}
		if s.K == KFP {
			return in.fpConst(0)
		}
		if in.wideInt(t) {
			return in.tb.IntConst(big0)
		}
		return in.tb.zeroOf(s)
	case *types.Pointer:
		return (*Value)(nil)
	case *types.Array:
		a := make(Array, t.Len())
		for i := range a {
			a[i] = in.zero(t.Elem())
		}
		return a
	case *types.Named:
		return in.zero(t.Underlying())
	case *types.Alias:
		return in.zero(types.Unalias(t))
	case *types.Interface:
		return Iface{}
	case *types.Slice:
		return Slice{}
	case *types.Struct:
		s := make(Struct, t.NumFields())
		for i := range s {
			s[i] = in.zero(t.Field(i).Type())
		}
		return s
	case *types.Tuple:
		if t.Len() == 1 {
			return in.zero(t.At(0).Type())
		}
		s := make(Tuple, t.Len())
		for i := range s {
			s[i] = in.zero(t.At(i).Type())
		}
		return s
	case *types.Chan:
		return (*Opaque)(nil)
	case *types.Map:
		return (*Map)(nil)
	case *types.Signature:
		return (*ssa.Function)(nil)
	}
	panic(engineAbort{fmt.Sprintf("zero: unsupported type %T %v", t, t)})
}

// copyVal copies aggregates (value semantics).
func copyVal(v Value) Value {
	switch v := v.(type) {
	case Struct:
		n := make(Struct, len(v))
		for i, f := range v {
			n[i] = copyVal(f)
		}
		return n
	case Array:
		n := make(Array, len(v))
		for i, f := range v {
			n[i] = copyVal(f)
		}
		return n
	}
	return v
}

func (m *Map) key(in *Interp, k Value) mapKey {
	switch k := k.(type) {
	case Str:
		if !k.IsConcrete() {
			panic(engineAbort{"symbolic string used as map key"})
		}
		return mapKey{K: 0, S: k.Concrete()}
	case *Term:
		if !k.IsConst() {
			panic(engineAbort{"symbolic scalar used as map key (must be concretised by caller)"})
		}
		return mapKey{K: 1, U: k.C}
	case *Value:
		return mapKey{K: 2, P: k}
	case Iface:
		if k.T == nil {
			return mapKey{K: 3}
		}
		mk := m.key(in, k.V)
		mk.S = mk.S + "|" + k.T.String()
		return mk
	}
	panic(engineAbort{fmt.Sprintf("unsupported map key type %T", k)})
}

func (m *Map) get(in *Interp, k Value) (Value, bool) {
	if m == nil {
		return nil, false
	}
	i, ok := m.idx[m.key(in, k)]
	if !ok {
		return nil, false
	}
	return m.entries[i].V, true
}

func (m *Map) set(in *Interp, k, v Value) {
	mk := m.key(in, k)
	if i, ok := m.idx[mk]; ok {
		m.entries[i].V = v
		return
	}
	m.idx[mk] = len(m.entries)
	m.entries = append(m.entries, mapEntry{K: k, V: v})
	m.n++
}

func (m *Map) del(in *Interp, k Value) {
	if m == nil {
		return
	}
	mk := m.key(in, k)
	if i, ok := m.idx[mk]; ok {
		m.entries[i].Deleted = true
		delete(m.idx, mk)
		m.n--
	}
}
