#!/usr/bin/env python3
import json,sys
r=json.load(open(sys.argv[1] if len(sys.argv)>1 else '/verif/work/r.json'))
for v in (r['violations'] or []):
    print(v['label']); print('   ', [(n['tag'],n['v']) for n in v['nondet']])
