#!/bin/bash
cd /verif
run() { echo "== $*"; python3 tools/seed_eval.py "$@" --scratch 2>&1 | grep -v '"needs_to_manifest"' | tail -22; }
for n in C01-f C09-e C13-f C10-e C16-e C06-e; do run ${n%-*} /verif/seeded/$n $n; done
run C10 /verif/seeded/C10-f C10-f --check-props C10,C11
[ -d /verif/seeded/C20-f ] && run C20 /verif/seeded/C20-f C20-f
