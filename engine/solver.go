package main

import (
	"bufio"
	"fmt"
	"io"
	"math/big"
	"os"
	"os/exec"
	"strings"
	"time"
)

var fbTimeoutDefault = 60

type Result int

const (
	Unsat Result = iota
	Sat
	Unknown
)

func (r Result) String() string { return [...]string{"unsat", "sat", "unknown"}[r] }

// Solver wraps one persistent SMT solver process.
type Solver struct {
	cmd     *exec.Cmd
	in      io.WriteCloser
	out     *bufio.Reader
	p       *Printer
	depth   int
	Queries int
	NSat    int
	NUnsat  int
	NUnk    int
	Time    time.Duration
	log     io.Writer
	kind    string
	timeout int // ms per query (incremental attempt)
	// transcript of state-changing commands per push level, for one-shot fallback solving
	levels       [][]string
	lastFallback bool
	Fallbacks    int
	Restarts     int
	lastSent     string
	fbTimeout    int // seconds for the one-shot fallback
	tmpDir       string
}

func solverArgs(kind string) (string, []string) {
	switch kind {
	case "z3-new":
		return "z3-new", []string{"-in"}
	case "cvc5":
		return "cvc5", []string{"--incremental", "--produce-models", "--lang=smt2"}
	default:
		return "z3", []string{"-in"}
	}
}

func NewSolver(kind string, timeoutMs int, logw io.Writer) (*Solver, error) {
	bin, args := solverArgs(kind)
	cmd := exec.Command(bin, args...)
	in, err := cmd.StdinPipe()
	if err != nil {
		return nil, err
	}
	out, err := cmd.StdoutPipe()
	if err != nil {
		return nil, err
	}
	cmd.Stderr = os.Stderr
	if err := cmd.Start(); err != nil {
		return nil, err
	}
	s := &Solver{cmd: cmd, in: in, out: bufio.NewReaderSize(out, 1<<16), p: NewPrinter(), log: logw, kind: kind, timeout: timeoutMs, fbTimeout: fbTimeoutDefault}
	s.levels = [][]string{nil}
	s.send("(set-option :produce-models true)\n")
	if kind == "cvc5" {
		s.send("(set-logic ALL)\n")
		if timeoutMs > 0 {
			s.send(fmt.Sprintf("(set-option :tlimit-per %d)\n", timeoutMs))
		}
	} else if timeoutMs > 0 {
		s.send(fmt.Sprintf("(set-option :timeout %d)\n", timeoutMs))
	}
	return s, nil
}

func (s *Solver) send(text string) {
	if len(text) > 12 && !strings.HasPrefix(text, "(check-sat") && !strings.HasPrefix(text, "(pop") && !strings.HasPrefix(text, "(push") {
		if len(text) > 300 {
			s.lastSent = text[len(text)-300:]
		} else {
			s.lastSent = text
		}
	}
	if s.log != nil {
		io.WriteString(s.log, text)
	}
	if _, err := io.WriteString(s.in, text); err != nil {
		panic(engineAbort{"solver write: " + err.Error()})
	}
}

func (s *Solver) Close() {
	s.in.Close()
	s.cmd.Process.Kill()
	s.cmd.Wait()
}

func (s *Solver) Push() {
	s.p.Push()
	s.send("(push 1)\n")
	s.depth++
	s.levels = append(s.levels, nil)
}

func (s *Solver) Pop() {
	s.p.Pop()
	s.send("(pop 1)\n")
	s.depth--
	s.levels = s.levels[:len(s.levels)-1]
	s.lastFallback = false
}

// PopTo pops back to the given depth.
func (s *Solver) PopTo(d int) {
	for s.depth > d {
		s.Pop()
	}
}

func (s *Solver) Assert(t *Term) {
	if t.IsTrue() {
		return
	}
	ref := s.p.Ref(t)
	s.p.out.WriteString("(assert " + ref + ")\n")
	s.flush()
}

func (s *Solver) flush() {
	if s.p.out.Len() > 0 {
		txt := s.p.out.String()
		s.levels[len(s.levels)-1] = append(s.levels[len(s.levels)-1], txt)
		s.send(txt)
		s.p.out.Reset()
	}
}

// oneShot solves the current assertion stack in a fresh solver process (z3's one-shot
// strategy is far stronger on wide bit-vector arithmetic than its incremental core).
func (s *Solver) oneShot(extra string) (Result, string) {
	var sb strings.Builder
	sb.WriteString("(set-option :produce-models true)\n")
	for _, l := range s.levels {
		for _, t := range l {
			sb.WriteString(t)
		}
	}
	sb.WriteString("(check-sat)\n")
	sb.WriteString(extra)
	f, err := os.CreateTemp("", "gosym-*.smt2")
	if err != nil {
		return Unknown, ""
	}
	defer os.Remove(f.Name())
	f.WriteString(sb.String())
	f.Close()
	bin := "z3"
	if s.kind == "z3-new" {
		bin = "z3-new"
	}
	out, _ := exec.Command(bin, fmt.Sprintf("-T:%d", s.fbTimeout), f.Name()).Output()
	text := string(out)
	if strings.Contains(text, "(error") {
		return Unknown, text
	}
	first := strings.TrimSpace(strings.SplitN(text, "\n", 2)[0])
	rest := ""
	if i := strings.IndexByte(text, '\n'); i >= 0 {
		rest = text[i+1:]
	}
	switch first {
	case "sat":
		return Sat, rest
	case "unsat":
		return Unsat, rest
	}
	return Unknown, rest
}

func (s *Solver) readLine() string {
	line, err := s.out.ReadString('\n')
	if err != nil {
		panic(engineAbort{"solver read: " + err.Error()})
	}
	return strings.TrimSpace(line)
}

// readLineTimeout reads the answer to a check-sat with a watchdog: z3's soft timeout is not
// honoured inside some preprocessing steps (floating point), so a solver that stays silent for
// much longer than its timeout is killed and restarted with the current assertion stack.
func (s *Solver) readLineTimeout() (string, bool) {
	if s.timeout <= 0 {
		return s.readLine(), true
	}
	type res struct {
		line string
		err  error
	}
	ch := make(chan res, 1)
	rd := s.out
	go func() {
		for {
			line, err := rd.ReadString('\n')
			if err != nil {
				ch <- res{"", err}
				return
			}
			l := strings.TrimSpace(line)
			if l != "" {
				ch <- res{l, nil}
				return
			}
		}
	}()
	limit := time.Duration(s.timeout)*time.Millisecond*2 + 3*time.Second
	select {
	case r := <-ch:
		if r.err != nil {
			panic(engineAbort{"solver read: " + r.err.Error()})
		}
		return r.line, true
	case <-time.After(limit):
		s.restart()
		return "", false
	}
}

// restart kills the solver process and rebuilds the assertion stack in a fresh one.
func (s *Solver) restart() {
	s.Restarts++
	s.in.Close()
	s.cmd.Process.Kill()
	s.cmd.Wait()
	bin, args := solverArgs(s.kind)
	cmd := exec.Command(bin, args...)
	in, err := cmd.StdinPipe()
	if err != nil {
		panic(engineAbort{"solver restart: " + err.Error()})
	}
	out, err := cmd.StdoutPipe()
	if err != nil {
		panic(engineAbort{"solver restart: " + err.Error()})
	}
	cmd.Stderr = os.Stderr
	if err := cmd.Start(); err != nil {
		panic(engineAbort{"solver restart: " + err.Error()})
	}
	s.cmd, s.in, s.out = cmd, in, bufio.NewReaderSize(out, 1<<16)
	s.send("(set-option :produce-models true)\n")
	if s.kind == "cvc5" {
		s.send("(set-logic ALL)\n")
		s.send(fmt.Sprintf("(set-option :tlimit-per %d)\n", s.timeout))
	} else {
		s.send(fmt.Sprintf("(set-option :timeout %d)\n", s.timeout))
	}
	for i, l := range s.levels {
		if i > 0 {
			s.send("(push 1)\n")
		}
		for _, t := range l {
			s.send(t)
		}
	}
}

// Check runs check-sat under the current assertions.
func (s *Solver) Check() Result {
	s.flush()
	t0 := time.Now()
	s.lastFallback = false
	s.send("(check-sat)\n")
	var r Result
	for {
		line, answered := s.readLineTimeout()
		if !answered {
			line = "unknown"
		}
		if line == "" {
			continue
		}
		switch {
		case line == "sat":
			r = Sat
			s.NSat++
		case line == "unsat":
			r = Unsat
			s.NUnsat++
		case line == "unknown" || strings.HasPrefix(line, "timeout"):
			s.Fallbacks++
			r, _ = s.oneShot("")
			s.lastFallback = true
			switch r {
			case Sat:
				s.NSat++
			case Unsat:
				s.NUnsat++
			default:
				s.NUnk++
			}
		case strings.HasPrefix(line, "(error") && strings.Contains(line, "canceled"):
			// the per-query timeout fired inside push / assert processing: the process state is not to be
			// trusted any more. Start a fresh one with the same assertion stack and decide this query one-shot.
			s.restart()
			s.Fallbacks++
			r, _ = s.oneShot("")
			s.lastFallback = true
			switch r {
			case Sat:
				s.NSat++
			case Unsat:
				s.NUnsat++
			default:
				s.NUnk++
			}
		case strings.HasPrefix(line, "(error"):
			panic(engineAbort{"solver error: " + line})
		default:
			panic(engineAbort{"solver unexpected output: " + line})
		}
		break
	}
	s.Queries++
	s.Time += time.Since(t0)
	if os.Getenv("GOSYM_SLOW") != "" && time.Since(t0) > 2*time.Second {
		fmt.Fprintf(os.Stderr, "SLOW %.1fs %v fallback=%v last=%q\n", time.Since(t0).Seconds(), r, s.lastFallback, s.lastSent)
	}
	return r
}

// CheckWith: is (current assertions AND t) satisfiable?
func (s *Solver) CheckWith(t *Term) Result {
	if t.IsFalse() {
		return Unsat
	}
	s.Push()
	s.Assert(t)
	r := s.Check()
	s.Pop()
	return r
}

// readSexp reads one balanced s-expression from solver output.
func (s *Solver) readSexp() string {
	var sb strings.Builder
	depth := 0
	started := false
	inBar := false
	for {
		c, err := s.out.ReadByte()
		if err != nil {
			panic(engineAbort{"solver read: " + err.Error()})
		}
		sb.WriteByte(c)
		if inBar {
			if c == '|' {
				inBar = false
			}
			continue
		}
		switch c {
		case '|':
			inBar = true
		case '(':
			depth++
			started = true
		case ')':
			depth--
		}
		if started && depth == 0 {
			return sb.String()
		}
	}
}

// GetValues evaluates the given terms in the current model (call right after a Sat Check,
// before any pop). Only BV / Bool / Int sorted terms.
func (s *Solver) GetValues(ts []*Term) []*big.Int {
	res := make([]*big.Int, len(ts))
	const chunk = 200
	for off := 0; off < len(ts); off += chunk {
		end := off + chunk
		if end > len(ts) {
			end = len(ts)
		}
		var refs []string
		for _, t := range ts[off:end] {
			refs = append(refs, s.p.Ref(t))
		}
		s.flush()
		var out string
		if s.lastFallback {
			r, o := s.oneShot("(get-value (" + strings.Join(refs, " ") + "))\n")
			if r != Sat {
				panic(engineAbort{"fallback solver could not reproduce a model"})
			}
			out = o
		} else {
			s.send("(get-value (" + strings.Join(refs, " ") + "))\n")
			out = s.readSexp()
		}
		if strings.Contains(out, "(error") {
			panic(engineAbort{"solver get-value error: " + out})
		}
		vals := parseValues(out)
		if len(vals) != end-off {
			panic(engineAbort{fmt.Sprintf("get-value: expected %d values got %d: %s", end-off, len(vals), out)})
		}
		copy(res[off:end], vals)
	}
	return res
}

// parseValues parses "((ref val) (ref val) ...)" taking the last token group of each pair.
func parseValues(s string) []*big.Int {
	toks := tokenize(s)
	// structure: ( ( name val ) ( name val ) )
	var vals []*big.Int
	i := 0
	if i < len(toks) && toks[i] == "(" {
		i++
	}
	for i < len(toks) && toks[i] == "(" {
		i++
		// skip name (may be a nested sexp)
		i = skipSexp(toks, i)
		// value
		j := skipSexp(toks, i)
		vals = append(vals, parseVal(toks[i:j]))
		i = j
		if i < len(toks) && toks[i] == ")" {
			i++
		}
	}
	return vals
}

func skipSexp(toks []string, i int) int {
	if toks[i] != "(" {
		return i + 1
	}
	d := 0
	for ; i < len(toks); i++ {
		if toks[i] == "(" {
			d++
		} else if toks[i] == ")" {
			d--
			if d == 0 {
				return i + 1
			}
		}
	}
	return i
}

func tokenize(s string) []string {
	var toks []string
	i := 0
	for i < len(s) {
		c := s[i]
		switch {
		case c == '(' || c == ')':
			toks = append(toks, string(c))
			i++
		case c == ' ' || c == '\n' || c == '\t' || c == '\r':
			i++
		case c == '|':
			j := strings.IndexByte(s[i+1:], '|')
			toks = append(toks, s[i:i+j+2])
			i += j + 2
		default:
			j := i
			for j < len(s) && !strings.ContainsRune("() \n\t\r", rune(s[j])) {
				j++
			}
			toks = append(toks, s[i:j])
			i = j
		}
	}
	return toks
}

func parseVal(toks []string) *big.Int {
	if len(toks) == 1 {
		t := toks[0]
		switch {
		case t == "true":
			return big.NewInt(1)
		case t == "false":
			return big.NewInt(0)
		case strings.HasPrefix(t, "#x"):
			v, _ := new(big.Int).SetString(t[2:], 16)
			return v
		case strings.HasPrefix(t, "#b"):
			v, _ := new(big.Int).SetString(t[2:], 2)
			return v
		default:
			v, ok := new(big.Int).SetString(t, 10)
			if ok {
				return v
			}
		}
	}
	// (- 5)
	if len(toks) == 4 && toks[0] == "(" && toks[1] == "-" {
		v, ok := new(big.Int).SetString(toks[2], 10)
		if ok {
			return v.Neg(v)
		}
	}
	// (_ bv5 32)
	if len(toks) == 5 && toks[1] == "_" && strings.HasPrefix(toks[2], "bv") {
		v, ok := new(big.Int).SetString(toks[2][2:], 10)
		if ok {
			return v
		}
	}
	panic(engineAbort{"cannot parse model value: " + strings.Join(toks, " ")})
}
