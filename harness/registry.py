# Registry: property -> harness runs. PKGS maps a harness directory to (package dir relative to /repo, package name).
PKGS = {
    "bt": (".", "bt"),
    "bscript": ("./bscript", "bscript"),
    "interpreter": ("./bscript/interpreter", "interpreter"),
    "ord": ("./ord", "ord"),
}

PROPS = {
    "C01": {
        "harnesses": [
            {"pkg": "bt", "name": "VH_C01_VarInt"},
        ],
        "assumptions": [],
        "bounds": {"quick": "", "thorough": ""},
    },
}
