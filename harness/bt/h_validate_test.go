package bt

import (
	"bytes"
	"encoding/hex"
	"encoding/json"
	"fmt"
	"os"
	"testing"
)

// TestVerifRefValidate validates the reference digests against the node's own vectors
// (sighash_bip143.json / sighash_legacy.json, 500 each; go-bt's suite does not use them).
func TestVerifRefValidate(t *testing.T) {
	for _, f := range []struct {
		file   string
		forkid bool
	}{{"bscript/interpreter/data/sighash_bip143.json", true}, {"bscript/interpreter/data/sighash_legacy.json", false}} {
		raw, err := os.ReadFile(f.file)
		if err != nil {
			t.Fatal(err)
		}
		var rows [][]interface{}
		if err := json.Unmarshal(raw, &rows); err != nil {
			t.Fatal(err)
		}
		n, ok := 0, 0
		for _, r := range rows {
			if len(r) != 5 {
				continue
			}
			n++
			tx, err := NewTxFromString(r[0].(string))
			if err != nil {
				continue
			}
			script, _ := hex.DecodeString(r[1].(string))
			idx := int(r[2].(float64))
			ht := uint32(int32(r[3].(float64)))
			want, _ := hex.DecodeString(r[4].(string))
			var h []byte
			if f.forkid {
				h = sha256dRef(refPreimage143(refFromTx(tx), idx, script, 0, ht))
			} else {
				// the node's legacy serialiser drops OP_CODESEPARATOR from the script code; the
				// property leaves that to the caller, so the vectors are normalised the same way here
				pre, one := refPreimageLegacy(refFromTx(tx), idx, refStripCodeSep(script), ht)
				if one {
					h = make([]byte, 32)
					h[0] = 1
				} else {
					h = sha256dRef(pre)
				}
			}
			if bytes.Equal(refRev(h), want) || bytes.Equal(h, want) {
				ok++
			}
		}
		fmt.Printf("VERIF-REF-VALIDATE %s vectors=%d match=%d\n", f.file, n, ok)
		if ok != n {
			t.Errorf("%s: reference disagrees with %d node vectors", f.file, n-ok)
		}
	}
}

func refStripCodeSep(s []byte) []byte {
	var out []byte
	for i := 0; i < len(s); {
		op := s[i]
		n := 0
		switch {
		case op >= 1 && op <= 75:
			n = int(op)
		case op == 76 && i+1 < len(s):
			n = 1 + int(s[i+1])
		case op == 77 && i+2 < len(s):
			n = 2 + int(s[i+1]) + int(s[i+2])<<8
		case op == 78 && i+4 < len(s):
			n = 4 + int(s[i+1]) + int(s[i+2])<<8 + int(s[i+3])<<16 + int(s[i+4])<<24
		}
		end := i + 1 + n
		if end > len(s) || end < i {
			end = len(s)
		}
		if op != 0xab {
			out = append(out, s[i:end]...)
		}
		i = end
	}
	return out
}
