#!/usr/bin/env python3
"""Regenerates MANIFEST.json from harness/registry.py (claimed properties) and manifest_meta.py."""
import json, sys, os
ROOT = os.path.dirname(os.path.abspath(__file__))
sys.path.insert(0, os.path.join(ROOT, "harness"))
from registry import PROPS
from manifest_meta import META, NOT_APPLICABLE
ids = [json.loads(l)["id"] for l in open(os.path.join(ROOT, "properties.jsonl"))]
checks = []
for pid in ids:
    if pid not in PROPS or pid not in META:
        continue
    m = META[pid]
    checks.append({
        "property_id": pid,
        "quick_cmd": "./check %s --tier quick" % pid,
        "thorough_cmd": "./check %s --tier thorough" % pid,
        "evidence_file": "evidence/%s.json" % pid,
        "replay_cmd_template": "./check %s --replay {path}" % pid,
        "engine": "gosym",
        "level_claimed": {"category": "model_checking", "text": m["text"], "design_ref": m.get("design_ref", "DESIGN.md section 5, " + pid)},
        "level_note": m["note"],
        "technique": m.get("technique", "bounded symbolic execution of the real go/ssa + SMT (z3), counterexamples replayed natively"),
    })
na = []
for pid in ids:
    if pid not in [c["property_id"] for c in checks]:
        na.append({"property_id": pid, "reason": NOT_APPLICABLE.get(pid, "check not built yet in this session (work in progress; see DESIGN.md section 8)")})
man = {
    "version": 1,
    "setup_cmd": "cd engine && GOFLAGS=-mod=mod GOPROXY=off GOSUMDB=off GOTOOLCHAIN=local go build -o ../bin/gosym .",
    "hooks": {"guard": "verif", "enable": "none needed: harnesses are injected as virtual files through go/packages Overlay and `go test -overlay`; /repo is never written", "baseline_off_cmd": "cd /repo && go test -vet=off -count=1 -timeout 25m ./...", "source_commits": [], "add_only": True},
    "engines": [{"name": "gosym", "path": "engine/", "serves_properties": [c["property_id"] for c in checks], "kind_free_text": "own symbolic executor for go/ssa (x/tools v0.29.0): forking path exploration, SMT-LIB2 over a persistent z3 5.1.0 (z3-new) process per worker, native replay of every counterexample"}],
    "checks": checks,
    "not_applicable": na,
    "notes": "Every check regenerates its encoding from /repo's working tree on each run. Exit 0 = held within the stated bounds; exit 1 + VIOLATION line = solver counterexample that reproduced natively and is not a listed known finding; exit 2 = inconclusive (engine abort, bound exceeded, solver unknown, replay mismatch) - never reported as success.",
}
json.dump(man, open(os.path.join(ROOT, "MANIFEST.json"), "w"), indent=1)
print("claimed:", [c["property_id"] for c in checks])
