package main

// math/big.Int modelled as arbitrary-precision signed bit-vectors: every value carries a
// term whose width is chosen so that the operation cannot overflow (widths are concrete
// because operand byte lengths are concrete on every path). No overflow obligations needed.

import (
	"fmt"
	"math/big"
)

const bigMaxWidth = 8192

type BigVal struct {
	t *Term // signed BV, width multiple of 8, >= 16
}

func roundW(w int) int {
	if w < 16 {
		w = 16
	}
	return (w + 7) / 8 * 8
}

func (in *Interp) bigCheckW(w int) {
	if w > bigMaxWidth {
		panic(boundHit{fmt.Sprintf("big.Int width %d exceeds the engine bound %d", w, bigMaxWidth)})
	}
}

// bigOf reads the BigVal stored in a *big.Int cell.
func (in *Interp) bigOf(p Value) *Term {
	pp, ok := p.(*Value)
	if !ok || pp == nil {
		if fr := in.curFrame; fr != nil {
			fr.fault(in.tb.False, "nil-deref")
		}
		panic(pathEnd{"nil big.Int"})
	}
	st := (*pp).(Struct)
	if o, ok := st[1].(*Opaque); ok && o != nil {
		return o.Data.(*BigVal).t
	}
	return in.tb.BVConst(16, 0)
}

func (in *Interp) bigSet(p Value, t *Term) Value {
	pp := p.(*Value)
	st := (*pp).(Struct)
	in.bigCheckW(int(t.S.W))
	if in.globalCells != nil && in.globalCells[&st[1]] {
		in.sharedWrites = append(in.sharedWrites, "big.Int write to package-level value")
	}
	st[1] = &Opaque{Kind: "bigint", Data: &BigVal{t: in.bigShrink(t)}}
	st[0] = in.tb.False
	return p
}

// bigShrink reduces the width of constants to keep terms small.
func (in *Interp) bigShrink(t *Term) *Term {
	if !t.IsConst() {
		return t
	}
	v := t.SignedBig()
	w := roundW(v.BitLen() + 1)
	if w < int(t.S.W) {
		return in.tb.BVBig(w, v)
	}
	return t
}

func (in *Interp) bigConst(v *big.Int) *Term {
	return in.tb.BVBig(roundW(v.BitLen()+1), v)
}

func (in *Interp) newBigInt(t *Term) Value {
	cell := new(Value)
	*cell = Struct{in.tb.False, Slice{}}
	in.bigSet(cell, t)
	return cell
}

func (in *Interp) ext2(a, b *Term, extra int) (*Term, *Term, int) {
	w := int(a.S.W)
	if int(b.S.W) > w {
		w = int(b.S.W)
	}
	w = roundW(w + extra)
	in.bigCheckW(w)
	return in.tb.Sext(a, w), in.tb.Sext(b, w), w
}

func (in *Interp) bigAbs(t *Term) *Term {
	tb := in.tb
	w := roundW(int(t.S.W) + 1)
	x := tb.Sext(t, w)
	neg := tb.Cmp(OSlt, x, tb.BVConst(w, 0))
	return tb.Ite(neg, tb.Neg(x), x)
}

func init() {
	reg := func(name string, f intrinsic) { intrinsics[name] = f }
	reg("math/big.NewInt", func(in *Interp, fr *frame, a []Value) Value {
		return in.newBigInt(in.tb.Sext(a[0].(*Term), 72))
	})
	bin := func(name string, extra int, f func(in *Interp, x, y *Term, w int) *Term) {
		reg("(*math/big.Int)."+name, func(in *Interp, fr *frame, a []Value) Value {
			in.curFrame = fr
			x, y, w := in.ext2(in.bigOf(a[1]), in.bigOf(a[2]), extra)
			return in.bigSet(a[0], f(in, x, y, w))
		})
	}
	bin("Add", 1, func(in *Interp, x, y *Term, w int) *Term { return in.tb.Bin(OAdd, x, y) })
	bin("Sub", 1, func(in *Interp, x, y *Term, w int) *Term { return in.tb.Bin(OSub, x, y) })
	bin("And", 0, func(in *Interp, x, y *Term, w int) *Term { return in.tb.Bin(OBand, x, y) })
	bin("Or", 0, func(in *Interp, x, y *Term, w int) *Term { return in.tb.Bin(OBor, x, y) })
	bin("Xor", 0, func(in *Interp, x, y *Term, w int) *Term { return in.tb.Bin(OBxor, x, y) })
	reg("(*math/big.Int).Mul", func(in *Interp, fr *frame, a []Value) Value {
		x, y := in.bigOf(a[1]), in.bigOf(a[2])
		w := roundW(int(x.S.W + y.S.W))
		in.bigCheckW(w)
		return in.bigSet(a[0], in.tb.Bin(OMul, in.tb.Sext(x, w), in.tb.Sext(y, w)))
	})
	divrem := func(name string, op Op) {
		reg("(*math/big.Int)."+name, func(in *Interp, fr *frame, a []Value) Value {
			in.curFrame = fr
			x, y, w := in.ext2(in.bigOf(a[1]), in.bigOf(a[2]), 1)
			fr.fault(in.tb.Not(in.tb.Eq(y, in.tb.BVConst(w, 0))), "big-div-zero")
			return in.bigSet(a[0], in.tb.Bin(op, x, y))
		})
	}
	divrem("Quo", OSdiv)
	divrem("Rem", OSrem)
	reg("(*math/big.Int).Neg", func(in *Interp, fr *frame, a []Value) Value {
		x := in.bigOf(a[1])
		w := roundW(int(x.S.W) + 1)
		return in.bigSet(a[0], in.tb.Neg(in.tb.Sext(x, w)))
	})
	reg("(*math/big.Int).Abs", func(in *Interp, fr *frame, a []Value) Value {
		return in.bigSet(a[0], in.bigAbs(in.bigOf(a[1])))
	})
	reg("(*math/big.Int).Not", func(in *Interp, fr *frame, a []Value) Value {
		return in.bigSet(a[0], in.tb.BNot(in.bigOf(a[1])))
	})
	reg("(*math/big.Int).Set", func(in *Interp, fr *frame, a []Value) Value {
		return in.bigSet(a[0], in.bigOf(a[1]))
	})
	reg("(*math/big.Int).SetInt64", func(in *Interp, fr *frame, a []Value) Value {
		return in.bigSet(a[0], in.tb.Sext(a[1].(*Term), 72))
	})
	reg("(*math/big.Int).SetUint64", func(in *Interp, fr *frame, a []Value) Value {
		return in.bigSet(a[0], in.tb.Zext(a[1].(*Term), 72))
	})
	shift := func(name string, left bool) {
		reg("(*math/big.Int)."+name, func(in *Interp, fr *frame, a []Value) Value {
			x := in.bigOf(a[1])
			n := a[2].(*Term)
			tb := in.tb
			if !n.IsConst() {
				if left {
					panic(engineAbort{"big.Int.Lsh by a symbolic amount"})
				}
				w := int(x.S.W)
				var cnt *Term
				if w >= 64 {
					cnt = tb.Zext(n, w)
				} else {
					big := tb.Cmp(OUle, tb.BVConst(64, uint64(w)), n)
					cnt = tb.Ite(big, tb.BVConst(w, uint64(w)), tb.Extract(n, w-1, 0))
				}
				return in.bigSet(a[0], tb.Bin(OAshr, x, cnt))
			}
			c := int(n.C)
			if left {
				w := roundW(int(x.S.W) + c)
				in.bigCheckW(w)
				return in.bigSet(a[0], tb.Bin(OShl, tb.Sext(x, w), tb.BVConst(w, uint64(c))))
			}
			return in.bigSet(a[0], tb.Bin(OAshr, x, tb.BVConst(int(x.S.W), uint64(c))))
		})
	}
	shift("Lsh", true)
	shift("Rsh", false)
	reg("(*math/big.Int).SetBytes", func(in *Interp, fr *frame, a []Value) Value {
		cells := a[1].(Slice).A
		tb := in.tb
		if len(cells) == 0 {
			return in.bigSet(a[0], tb.BVConst(16, 0))
		}
		var t *Term
		for _, c := range cells {
			if t == nil {
				t = c.(*Term)
			} else {
				t = tb.Concat(t, c.(*Term))
			}
		}
		w := roundW(int(t.S.W) + 1)
		in.bigCheckW(w)
		return in.bigSet(a[0], tb.Zext(t, w))
	})
	reg("(*math/big.Int).Bytes", func(in *Interp, fr *frame, a []Value) Value {
		in.curFrame = fr
		tb := in.tb
		abs := in.bigAbs(in.bigOf(a[0]))
		w := int(abs.S.W)
		maxLen := w / 8
		n := maxLen
		for k := 0; k < maxLen; k++ {
			// abs < 2^(8k) ?
			lim := tb.BVBig(w, new(big.Int).Lsh(big.NewInt(1), uint(8*k)))
			if in.decide(fr, nil, tb.Cmp(OUlt, abs, lim)) {
				n = k
				break
			}
		}
		out := make([]Value, n)
		for i := 0; i < n; i++ {
			hi := (n-i)*8 - 1
			out[i] = tb.Extract(abs, hi, hi-7)
		}
		return Slice{A: out}
	})
	reg("(*math/big.Int).Int64", func(in *Interp, fr *frame, a []Value) Value {
		tb := in.tb
		x := in.bigOf(a[0])
		abs := in.bigAbs(x)
		var lo *Term
		if abs.S.W >= 64 {
			lo = tb.Extract(abs, 63, 0)
		} else {
			lo = tb.Zext(abs, 64)
		}
		neg := tb.Cmp(OSlt, x, tb.BVConst(int(x.S.W), 0))
		return tb.Ite(neg, tb.Neg(lo), lo)
	})
	reg("(*math/big.Int).Uint64", func(in *Interp, fr *frame, a []Value) Value {
		tb := in.tb
		abs := in.bigAbs(in.bigOf(a[0]))
		if abs.S.W >= 64 {
			return tb.Extract(abs, 63, 0)
		}
		return tb.Zext(abs, 64)
	})
	reg("(*math/big.Int).IsInt64", func(in *Interp, fr *frame, a []Value) Value {
		tb := in.tb
		x := in.bigOf(a[0])
		if x.S.W <= 64 {
			return tb.True
		}
		return tb.Eq(tb.Sext(tb.Extract(x, 63, 0), int(x.S.W)), x)
	})
	reg("(*math/big.Int).Cmp", func(in *Interp, fr *frame, a []Value) Value {
		tb := in.tb
		x, y, _ := in.ext2(in.bigOf(a[0]), in.bigOf(a[1]), 0)
		return tb.Ite(tb.Cmp(OSlt, x, y), tb.BVConst(64, ^uint64(0)), tb.Ite(tb.Eq(x, y), tb.BVConst(64, 0), tb.BVConst(64, 1)))
	})
	reg("(*math/big.Int).Sign", func(in *Interp, fr *frame, a []Value) Value {
		tb := in.tb
		x := in.bigOf(a[0])
		z := tb.BVConst(int(x.S.W), 0)
		return tb.Ite(tb.Cmp(OSlt, x, z), tb.BVConst(64, ^uint64(0)), tb.Ite(tb.Eq(x, z), tb.BVConst(64, 0), tb.BVConst(64, 1)))
	})
	reg("(*math/big.Int).String", func(in *Interp, fr *frame, a []Value) Value {
		x := in.bigOf(a[0])
		if x.IsConst() {
			return Str{S: x.SignedBig().String()}
		}
		return opaqueStr()
	})
	// secp256k1 curve parameters: only N is used by go-bt (halfOrder)
	reg("github.com/libsv/go-bk/bec.S256", func(in *Interp, fr *frame, a []Value) Value {
		n, _ := new(big.Int).SetString("FFFFFFFFFFFFFFFFFFFFFFFFFFFFFFFEBAAEDCE6AF48A03BBFD25E8CD0364141", 16)
		res := fr.fn.Signature.Results().At(0).Type()
		cell := new(Value)
		*cell = in.zero(deref(res))
		// KoblitzCurve{*elliptic.CurveParams, ...}: allocate CurveParams and set N
		st := (*cell).(Struct)
		cpT := deref(res).Underlying().(interface{ Field(int) *typesVar }).Field(0).Type()
		cp := new(Value)
		*cp = in.zero(deref(cpT))
		st[0] = cp
		cps := (*cp).(Struct)
		cpStruct := deref(cpT).Underlying().(interface {
			NumFields() int
			Field(int) *typesVar
		})
		for i := 0; i < cpStruct.NumFields(); i++ {
			if cpStruct.Field(i).Name() == "N" {
				cps[i] = in.newBigInt(in.bigConst(n))
			}
		}
		return cell
	})
}
