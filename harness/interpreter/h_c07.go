package interpreter

import (
	"github.com/libsv/go-bt/v2"
	"github.com/libsv/go-bt/v2/bscript"
	"github.com/libsv/go-bt/v2/bscript/interpreter/scriptflag"
)

// C07-S: one step from an arbitrary valid state never faults and makes progress.
func VH_C07_Step() {
	vunwindCut(vparam("U", 8))
	if c := vparam("CAP", 0); c > 0 {
		// memory: no single allocation of the step may exceed CAP bytes whatever the operands say
		// (only used for opcodes whose legitimate allocations are bounded by the stack contents)
		vcap(c, c)
	}
	th, _, ok := vstepThread(vStepOpts{depth: vparam("D", 3), k: vparam("K", 2), adepth: vparam("A", 1), cdepth: vparam("C", 0), withTx: vparam("TX", 0) == 1,
		bigTop: vparam("BIGTOP", 0), inUnlock: vparam("UNLOCK", 0) == 1, sigOps: vparam("SIGOPS", 0) == 1, extra: vparam("X", 0)})
	if !ok {
		return
	}
	idx0, off0 := th.scriptIdx, th.scriptOff
	done, err := th.Step()
	if err == nil && !done {
		vassert(th.scriptIdx > idx0 || (th.scriptIdx == idx0 && th.scriptOff > off0), "step makes progress")
	}
	vassert(th.scriptIdx <= len(th.scripts) && len(th.scripts) <= 3, "script index stays in range")
	if th.scriptIdx < len(th.scripts) {
		// state invariant needed by subScript(): the code-separator position lies inside the current script
		vassert(th.lastCodeSep == 0 || th.lastCodeSep < len(th.scripts[th.scriptIdx]), "code-separator position stays inside the current script")
	}
	if err == nil {
		vreach("step-ok")
	} else {
		vreach("step-error")
	}
}

// C07-E1: Engine.Execute entry: every nil/non-nil combination of the entry arguments,
// arbitrary input index and flags; scripts are tiny (empty / OP_1 / one arbitrary byte).
func vtinyScript(tag string) *bscript.Script {
	switch vnondetLen(tag+"-kind", 0, 3) {
	case 0:
		return nil
	case 1:
		return &bscript.Script{}
	case 2:
		return &bscript.Script{bscript.Op1}
	}
	s := bscript.Script{bscript.Op1, bscript.OpDROP, bscript.Op0}
	return &s
}

func VH_C07_Execute() {
	ls, us := vtinyScript("ls"), vtinyScript("us")
	var opts []ExecutionOptionFunc
	opts = append(opts, WithScripts(ls, us), WithFlags(scriptflag.Flag(vnondetU32("flags"))&0xffff))
	if vnondetBool("withtx") {
		var tx *bt.Tx
		if vnondetBool("has-tx") {
			tx = &bt.Tx{Version: vnondetU32("version"), LockTime: vnondetU32("locktime")}
			n := vnondetLen("nin", 0, 2)
			for i := 0; i < n; i++ {
				in := &bt.Input{PreviousTxOutIndex: vnondetU32("vout"), SequenceNumber: vnondetU32("seq")}
				_ = in.PreviousTxIDAdd(vnondetBytes("txid", 32, 32))
				in.UnlockingScript = vtinyScript("in-us")
				tx.Inputs = append(tx.Inputs, in)
			}
		}
		var prev *bt.Output
		if vnondetBool("has-prev") {
			prev = &bt.Output{Satoshis: vnondetU64("value"), LockingScript: vtinyScript("prev-ls")}
		}
		opts = append(opts, WithTx(tx, vnondetInt("inputidx"), prev))
	}
	err := NewEngine().Execute(opts...)
	if err == nil {
		vreach("execute-ok")
	} else {
		vreach("execute-error")
	}
}

// C07-E1s: Engine.Execute reaching a signature opcode with a non-empty "signature" (so that the
// interpreter copies and serialises the transaction it was given) on transactions in any state
// the public API can leave them in: inputs that were never given a previous txid (PreviousTxIDAdd
// refuses anything but 32 bytes, so an input has a 32-byte id or none), outputs without a locking script.
func VH_C07_ExecuteSig() {
	u := bscript.Script{bscript.Op1, bscript.Op1}
	l := bscript.Script{bscript.OpCHECKSIG}
	switch vnondetLen("sig-kind", 0, 3) {
	case 3:
		l = bscript.Script{bscript.OpCHECKSIG, bscript.OpNOT} // a failed check of a junk signature, inverted: success without strict encoding
	case 1:
		l = bscript.Script{bscript.OpCHECKSIGVERIFY}
	case 2:
		u = bscript.Script{bscript.Op0, bscript.Op1, bscript.Op1}
		l = bscript.Script{bscript.Op1, bscript.Op1, bscript.OpCHECKMULTISIG}
	}
	flags := vC07FlagSets[vnondetLen("flagset", 0, len(vC07FlagSets)-1)]
	tx := &bt.Tx{Version: vnondetU32("version"), LockTime: vnondetU32("locktime")}
	n := vnondetLen("nin", 1, 2)
	for i := 0; i < n; i++ {
		in := &bt.Input{PreviousTxOutIndex: vnondetU32("vout"), SequenceNumber: vnondetU32("seq")}
		if vnondetBool("has-txid") {
			_ = in.PreviousTxIDAdd(vnondetBytes("txid", 32, 32))
		}
		tx.Inputs = append(tx.Inputs, in)
	}
	for i, m := 0, vnondetLen("nout", 0, 2); i < m; i++ {
		o := &bt.Output{Satoshis: vnondetU64("outsats")}
		if vnondetBool("out-has-script") {
			o.LockingScript = &bscript.Script{bscript.Op1}
		}
		tx.Outputs = append(tx.Outputs, o)
	}
	prev := &bt.Output{Satoshis: vnondetU64("value"), LockingScript: &l}
	err := NewEngine().Execute(WithScripts(&l, &u), WithFlags(flags), WithTx(tx, vnondetLen("inputidx", 0, n-1), prev))
	if err == nil {
		vreach("execute-sig-ok")
	} else {
		vreach("execute-sig-error")
	}
}

var vC07FlagSets = []scriptflag.Flag{0, scriptflag.UTXOAfterGenesis, scriptflag.Bip16 | scriptflag.VerifyCleanStack | scriptflag.VerifyMinimalData | scriptflag.VerifyMinimalIf | scriptflag.DiscourageUpgradableNops | scriptflag.VerifyCheckLockTimeVerify | scriptflag.VerifyCheckSequenceVerify,
		scriptflag.UTXOAfterGenesis | scriptflag.Bip16 | scriptflag.VerifyMinimalData | scriptflag.VerifySigPushOnly | scriptflag.EnableSighashForkID | scriptflag.VerifyCheckLockTimeVerify}

// C07-E2: the whole pipeline (parse, execute, final check) on arbitrary short scripts.
func VH_C07_ExecuteScripts() {
	vunwindCut(vparam("U", 8))
	ls := bscript.Script(vnondetBytes("ls", 0, vparam("L", 1)))
	us := bscript.Script(vnondetBytes("us", 0, vparam("LU", 0)))
	if len(us) == 0 && vnondetBool("us-one") {
		us = bscript.Script{bscript.Op1} // something for the locking script to work on
	}
	flags := vC07FlagSets[vnondetLen("flagset", 0, len(vC07FlagSets)-1)]
	opts := []ExecutionOptionFunc{WithScripts(&ls, &us), WithFlags(flags)}
	if vparam("DBG", 1) == 1 && vnondetBool("with-debugger") {
		opts = append(opts, WithDebugger(&vDbg{})) // a recording debugger: every callback takes a snapshot
	}
	err := NewEngine().Execute(opts...)
	if err == nil {
		vreach("scripts-ok")
	} else {
		vreach("scripts-error")
	}
}
