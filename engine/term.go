package main

// Term DAG with hash-consing, constant folding and SMT-LIB2 printing.

import (
	"fmt"
	"math/big"
	"strings"
)

type Kind uint8

const (
	KBool Kind = iota
	KBV
	KInt
	KFP // float64
	KReal
)

type Sort struct {
	K Kind
	W int32
}

var SBool = Sort{KBool, 0}
var SInt = Sort{KInt, 0}
var SFP = Sort{KFP, 64}
var SReal = Sort{KReal, 0}

func BV(w int) Sort { return Sort{KBV, int32(w)} }

func (s Sort) String() string {
	switch s.K {
	case KBool:
		return "Bool"
	case KBV:
		return fmt.Sprintf("(_ BitVec %d)", s.W)
	case KInt:
		return "Int"
	case KFP:
		return "(_ FloatingPoint 11 53)"
	case KReal:
		return "Real"
	}
	return "?"
}

type Op uint8

const (
	OConst Op = iota
	OSym
	ONot
	OAnd
	OOr
	OEq
	OIte
	OUlt
	OUle
	OSlt
	OSle
	OAdd
	OSub
	OMul
	OUdiv
	OUrem
	OSdiv
	OSrem
	OBand
	OBor
	OBxor
	OBnot
	ONeg
	OShl
	OLshr
	OAshr
	OConcat
	OExtract
	OZext
	OSext
	OApp // uninterpreted function application
	// Int ops
	OIAdd
	OISub
	OIMul
	OIDiv // SMT div (floor for positive divisor)
	OIMod
	OILt
	OILe
	OINeg
	// FP
	OFPOp // generic FP operation with Name = smt op, rounding mode included by printer
	OBV2Nat
	OInt2BV
)

var opNames = map[Op]string{
	ONot: "not", OAnd: "and", OOr: "or", OEq: "=", OIte: "ite", OUlt: "bvult", OUle: "bvule", OSlt: "bvslt", OSle: "bvsle",
	OAdd: "bvadd", OSub: "bvsub", OMul: "bvmul", OUdiv: "bvudiv", OUrem: "bvurem", OSdiv: "bvsdiv", OSrem: "bvsrem",
	OBand: "bvand", OBor: "bvor", OBxor: "bvxor", OBnot: "bvnot", ONeg: "bvneg", OShl: "bvshl", OLshr: "bvlshr", OAshr: "bvashr",
	OConcat: "concat", OIAdd: "+", OISub: "-", OIMul: "*", OIDiv: "div", OIMod: "mod", OILt: "<", OILe: "<=", OINeg: "-",
	OBV2Nat: "bv2nat",
}

type Term struct {
	Op     Op
	S      Sort
	A      []*Term
	C      uint64   // constant value for BV w<=64 and Bool (0/1)
	Big    *big.Int // constant value for BV w>64 and Int
	Name   string   // symbol or UF name, or FP op
	P1, P2 int32    // extract hi,lo; ext amount
	id     int32
}

type tkey struct {
	op         Op
	k          Kind
	w          int32
	p1, p2     int32
	c          uint64
	a0, a1, a2 int32
	s          string
}

// TB is a term builder (one per path execution; not thread safe).
type TB struct {
	tab    map[tkey]*Term
	n      int32
	True   *Term
	False  *Term
	marked bool
	log    []tkey
	markN  int32
}

// Mark starts recording additions so that Rollback can remove them.
func (tb *TB) Mark() {
	tb.marked = true
	tb.log = tb.log[:0]
	tb.markN = tb.n
}

// Rollback removes every term created since Mark.
func (tb *TB) Rollback() {
	for _, k := range tb.log {
		delete(tb.tab, k)
	}
	tb.log = tb.log[:0]
	tb.n = tb.markN
}

func NewTB() *TB {
	tb := &TB{tab: make(map[tkey]*Term, 1024)}
	tb.True = tb.mk(&Term{Op: OConst, S: SBool, C: 1})
	tb.False = tb.mk(&Term{Op: OConst, S: SBool, C: 0})
	return tb
}

func (tb *TB) mk(t *Term) *Term {
	k := tkey{op: t.Op, k: t.S.K, w: t.S.W, p1: t.P1, p2: t.P2, c: t.C, a0: -1, a1: -1, a2: -1, s: t.Name}
	if t.Big != nil {
		k.s = t.Name + "#" + t.Big.Text(16)
	}
	switch len(t.A) {
	case 0:
	case 1:
		k.a0 = t.A[0].id
	case 2:
		k.a0, k.a1 = t.A[0].id, t.A[1].id
	case 3:
		k.a0, k.a1, k.a2 = t.A[0].id, t.A[1].id, t.A[2].id
	default:
		var sb strings.Builder
		sb.WriteString(k.s)
		for _, a := range t.A {
			fmt.Fprintf(&sb, ",%d", a.id)
		}
		k.s = sb.String()
	}
	if e, ok := tb.tab[k]; ok {
		return e
	}
	t.id = tb.n
	tb.n++
	tb.tab[k] = t
	if tb.marked {
		tb.log = append(tb.log, k)
	}
	return t
}

func mask(w int32) uint64 {
	if w >= 64 {
		return ^uint64(0)
	}
	return (uint64(1) << uint(w)) - 1
}

func bigMask(w int32) *big.Int {
	m := new(big.Int).Lsh(big.NewInt(1), uint(w))
	return m.Sub(m, big.NewInt(1))
}

func (t *Term) IsConst() bool { return t.Op == OConst }
func (t *Term) IsTrue() bool  { return t.Op == OConst && t.S.K == KBool && t.C == 1 }
func (t *Term) IsFalse() bool { return t.Op == OConst && t.S.K == KBool && t.C == 0 }

// BigVal returns the unsigned value of a constant BV / Int term.
func (t *Term) BigVal() *big.Int {
	if t.Big != nil {
		return t.Big
	}
	return new(big.Int).SetUint64(t.C)
}

// signedBig returns the signed interpretation of a BV constant.
func (t *Term) SignedBig() *big.Int {
	v := new(big.Int).Set(t.BigVal())
	if t.S.K == KBV && v.Bit(int(t.S.W)-1) == 1 {
		v.Sub(v, new(big.Int).Lsh(big.NewInt(1), uint(t.S.W)))
	}
	return v
}

func (tb *TB) Bool(b bool) *Term {
	if b {
		return tb.True
	}
	return tb.False
}

func (tb *TB) BVConst(w int, v uint64) *Term {
	if w > 64 {
		return tb.BVBig(w, new(big.Int).SetUint64(v))
	}
	return tb.mk(&Term{Op: OConst, S: BV(w), C: v & mask(int32(w))})
}

// BVBig makes a BV constant from an arbitrary (possibly negative) integer, wrapped to w bits.
func (tb *TB) BVBig(w int, v *big.Int) *Term {
	m := new(big.Int).And(v, bigMask(int32(w))) // And on negative numbers uses two's complement semantics
	if v.Sign() < 0 {
		m = new(big.Int).Mod(v, new(big.Int).Lsh(big.NewInt(1), uint(w)))
	}
	if w <= 64 {
		return tb.mk(&Term{Op: OConst, S: BV(w), C: m.Uint64()})
	}
	return tb.mk(&Term{Op: OConst, S: BV(w), Big: m})
}

func (tb *TB) IntConst(v *big.Int) *Term {
	return tb.mk(&Term{Op: OConst, S: SInt, Big: new(big.Int).Set(v)})
}

func (tb *TB) Sym(name string, s Sort) *Term {
	return tb.mk(&Term{Op: OSym, S: s, Name: name})
}

func (tb *TB) App(name string, s Sort, args ...*Term) *Term {
	return tb.mk(&Term{Op: OApp, S: s, Name: name, A: args})
}

func (tb *TB) Not(a *Term) *Term {
	if a.IsConst() {
		return tb.Bool(a.C == 0)
	}
	if a.Op == ONot {
		return a.A[0]
	}
	return tb.mk(&Term{Op: ONot, S: SBool, A: []*Term{a}})
}

func (tb *TB) And(a, b *Term) *Term {
	if a.IsConst() {
		if a.C == 1 {
			return b
		}
		return tb.False
	}
	if b.IsConst() {
		if b.C == 1 {
			return a
		}
		return tb.False
	}
	if a == b {
		return a
	}
	return tb.mk(&Term{Op: OAnd, S: SBool, A: []*Term{a, b}})
}

func (tb *TB) Or(a, b *Term) *Term {
	if a.IsConst() {
		if a.C == 1 {
			return tb.True
		}
		return b
	}
	if b.IsConst() {
		if b.C == 1 {
			return tb.True
		}
		return a
	}
	if a == b {
		return a
	}
	return tb.mk(&Term{Op: OOr, S: SBool, A: []*Term{a, b}})
}

func (tb *TB) Implies(a, b *Term) *Term { return tb.Or(tb.Not(a), b) }

func constEq(a, b *Term) bool {
	if a.Big != nil || b.Big != nil {
		return a.BigVal().Cmp(b.BigVal()) == 0
	}
	return a.C == b.C
}

func (tb *TB) Eq(a, b *Term) *Term {
	if a.S != b.S {
		panic(fmt.Sprintf("Eq sort mismatch %v %v", a.S, b.S))
	}
	if a == b {
		return tb.True
	}
	if a.IsConst() && b.IsConst() {
		return tb.Bool(constEq(a, b))
	}
	if a.S.K == KBool {
		if a.IsConst() {
			a, b = b, a
		}
		if b.IsConst() {
			if b.C == 1 {
				return a
			}
			return tb.Not(a)
		}
	}
	// zext(x) == const  -> x == const' or false
	if b.IsConst() && a.Op == OZext && a.S.W <= 64 {
		inner := a.A[0]
		if b.C&^mask(inner.S.W) != 0 {
			return tb.False
		}
		return tb.Eq(inner, tb.BVConst(int(inner.S.W), b.C))
	}
	if a.IsConst() && b.Op == OZext && b.S.W <= 64 {
		return tb.Eq(b, a)
	}
	if a.id > b.id {
		a, b = b, a
	}
	return tb.mk(&Term{Op: OEq, S: SBool, A: []*Term{a, b}})
}

func (tb *TB) Ite(c, a, b *Term) *Term {
	if c.IsConst() {
		if c.C == 1 {
			return a
		}
		return b
	}
	if a == b {
		return a
	}
	if a.S.K == KBool && a.IsConst() && b.IsConst() {
		if a.C == 1 {
			return c
		}
		return tb.Not(c)
	}
	return tb.mk(&Term{Op: OIte, S: a.S, A: []*Term{c, a, b}})
}

func toSigned(v uint64, w int32) int64 {
	if w >= 64 {
		return int64(v)
	}
	if v&(uint64(1)<<uint(w-1)) != 0 {
		return int64(v | ^mask(w))
	}
	return int64(v)
}

// Cmp builds a comparison: op in OUlt,OUle,OSlt,OSle.
func (tb *TB) Cmp(op Op, a, b *Term) *Term {
	if a.S != b.S {
		panic(fmt.Sprintf("Cmp sort mismatch %v %v", a.S, b.S))
	}
	if a.IsConst() && b.IsConst() {
		if a.S.W > 64 {
			var x, y *big.Int
			if op == OSlt || op == OSle {
				x, y = a.SignedBig(), b.SignedBig()
			} else {
				x, y = a.BigVal(), b.BigVal()
			}
			c := x.Cmp(y)
			if op == OUlt || op == OSlt {
				return tb.Bool(c < 0)
			}
			return tb.Bool(c <= 0)
		}
		switch op {
		case OUlt:
			return tb.Bool(a.C < b.C)
		case OUle:
			return tb.Bool(a.C <= b.C)
		case OSlt:
			return tb.Bool(toSigned(a.C, a.S.W) < toSigned(b.C, a.S.W))
		case OSle:
			return tb.Bool(toSigned(a.C, a.S.W) <= toSigned(b.C, a.S.W))
		}
	}
	if a == b {
		return tb.Bool(op == OUle || op == OSle)
	}
	if op == OUlt && b.IsConst() && b.S.W <= 64 && b.C == 0 {
		return tb.False
	}
	if op == OUle && a.IsConst() && a.S.W <= 64 && a.C == 0 {
		return tb.True
	}
	return tb.mk(&Term{Op: op, S: SBool, A: []*Term{a, b}})
}

func (tb *TB) foldBig(op Op, a, b *Term) *Term {
	w := int(a.S.W)
	x, y := a.BigVal(), b.BigVal()
	r := new(big.Int)
	switch op {
	case OAdd:
		r.Add(x, y)
	case OSub:
		r.Sub(x, y)
	case OMul:
		r.Mul(x, y)
	case OUdiv:
		if y.Sign() == 0 {
			return nil
		}
		r.Quo(x, y)
	case OUrem:
		if y.Sign() == 0 {
			return nil
		}
		r.Rem(x, y)
	case OSdiv:
		if y.Sign() == 0 {
			return nil
		}
		r.Quo(a.SignedBig(), b.SignedBig())
	case OSrem:
		if y.Sign() == 0 {
			return nil
		}
		r.Rem(a.SignedBig(), b.SignedBig())
	case OBand:
		r.And(x, y)
	case OBor:
		r.Or(x, y)
	case OBxor:
		r.Xor(x, y)
	case OShl:
		if y.Cmp(big.NewInt(int64(w))) >= 0 {
			r.SetInt64(0)
		} else {
			r.Lsh(x, uint(y.Uint64()))
		}
	case OLshr:
		if y.Cmp(big.NewInt(int64(w))) >= 0 {
			r.SetInt64(0)
		} else {
			r.Rsh(x, uint(y.Uint64()))
		}
	case OAshr:
		sx := a.SignedBig()
		if y.Cmp(big.NewInt(int64(w))) >= 0 {
			if sx.Sign() < 0 {
				r.SetInt64(-1)
			} else {
				r.SetInt64(0)
			}
		} else {
			r.Rsh(sx, uint(y.Uint64()))
		}
	default:
		return nil
	}
	return tb.BVBig(w, r)
}

func fold64(op Op, w int32, x, y uint64) (uint64, bool) {
	switch op {
	case OAdd:
		return x + y, true
	case OSub:
		return x - y, true
	case OMul:
		return x * y, true
	case OUdiv:
		if y == 0 {
			return 0, false
		}
		return x / y, true
	case OUrem:
		if y == 0 {
			return 0, false
		}
		return x % y, true
	case OSdiv:
		if y == 0 {
			return 0, false
		}
		sx, sy := toSigned(x, w), toSigned(y, w)
		if sy == -1 {
			return uint64(-sx), true
		}
		return uint64(sx / sy), true
	case OSrem:
		if y == 0 {
			return 0, false
		}
		sx, sy := toSigned(x, w), toSigned(y, w)
		if sy == -1 {
			return 0, true
		}
		return uint64(sx % sy), true
	case OBand:
		return x & y, true
	case OBor:
		return x | y, true
	case OBxor:
		return x ^ y, true
	case OShl:
		if y >= uint64(w) {
			return 0, true
		}
		return x << y, true
	case OLshr:
		if y >= uint64(w) {
			return 0, true
		}
		return x >> y, true
	case OAshr:
		sx := toSigned(x, w)
		if y >= uint64(w) {
			if sx < 0 {
				return ^uint64(0), true
			}
			return 0, true
		}
		return uint64(sx >> y), true
	}
	return 0, false
}

// Bin builds a binary BV operation.
func (tb *TB) Bin(op Op, a, b *Term) *Term {
	if a.S != b.S {
		panic(fmt.Sprintf("Bin %v sort mismatch %v %v", opNames[op], a.S, b.S))
	}
	w := a.S.W
	if a.IsConst() && b.IsConst() {
		if w > 64 {
			if r := tb.foldBig(op, a, b); r != nil {
				return r
			}
		} else if r, ok := fold64(op, w, a.C, b.C); ok {
			return tb.BVConst(int(w), r)
		}
	}
	isZero := func(t *Term) bool { return t.IsConst() && t.BigVal().Sign() == 0 }
	isOnes := func(t *Term) bool {
		if !t.IsConst() {
			return false
		}
		if t.S.W <= 64 {
			return t.C == mask(t.S.W)
		}
		return t.BigVal().Cmp(bigMask(t.S.W)) == 0
	}
	switch op {
	case OAdd, OBor, OBxor:
		if isZero(a) {
			return b
		}
		if isZero(b) {
			return a
		}
		if op == OBor && a == b {
			return a
		}
		if op == OBor && (isOnes(a) || isOnes(b)) {
			if isOnes(a) {
				return a
			}
			return b
		}
	case OSub:
		if isZero(b) {
			return a
		}
		if a == b {
			return tb.zeroOf(a.S)
		}
	case OShl, OLshr, OAshr:
		if isZero(b) {
			return a
		}
		if isZero(a) {
			return a
		}
		if b.IsConst() && op != OAshr && b.BigVal().Cmp(big.NewInt(int64(w))) >= 0 {
			return tb.zeroOf(a.S)
		}
		// (zext x) >> k with k >= width(x) -> 0
		if op == OLshr && b.IsConst() && a.Op == OZext && b.BigVal().Cmp(big.NewInt(int64(a.A[0].S.W))) >= 0 {
			return tb.zeroOf(a.S)
		}
	case OBand:
		if isZero(a) {
			return a
		}
		if isZero(b) {
			return b
		}
		if isOnes(a) {
			return b
		}
		if isOnes(b) {
			return a
		}
		if a == b {
			return a
		}
	case OMul:
		if isZero(a) {
			return a
		}
		if isZero(b) {
			return b
		}
		if a.IsConst() && a.S.W <= 64 && a.C == 1 {
			return b
		}
		if b.IsConst() && b.S.W <= 64 && b.C == 1 {
			return a
		}
	case OUdiv, OSdiv:
		if b.IsConst() && b.S.W <= 64 && b.C == 1 {
			return a
		}
	}
	// commutative normalisation
	switch op {
	case OAdd, OMul, OBand, OBor, OBxor:
		if a.id > b.id {
			a, b = b, a
		}
	}
	return tb.mk(&Term{Op: op, S: a.S, A: []*Term{a, b}})
}

func (tb *TB) zeroOf(s Sort) *Term {
	switch s.K {
	case KBV:
		return tb.BVConst(int(s.W), 0)
	case KBool:
		return tb.False
	case KInt:
		return tb.IntConst(big.NewInt(0))
	}
	panic("zeroOf")
}

func (tb *TB) BNot(a *Term) *Term {
	if a.IsConst() {
		if a.S.W > 64 {
			return tb.BVBig(int(a.S.W), new(big.Int).Xor(a.BigVal(), bigMask(a.S.W)))
		}
		return tb.BVConst(int(a.S.W), ^a.C)
	}
	if a.Op == OBnot {
		return a.A[0]
	}
	return tb.mk(&Term{Op: OBnot, S: a.S, A: []*Term{a}})
}

func (tb *TB) Neg(a *Term) *Term {
	if a.IsConst() {
		if a.S.W > 64 {
			return tb.BVBig(int(a.S.W), new(big.Int).Neg(a.BigVal()))
		}
		return tb.BVConst(int(a.S.W), -a.C)
	}
	return tb.mk(&Term{Op: ONeg, S: a.S, A: []*Term{a}})
}

func (tb *TB) Extract(a *Term, hi, lo int) *Term {
	w := hi - lo + 1
	if lo == 0 && w == int(a.S.W) {
		return a
	}
	if hi >= int(a.S.W) || lo < 0 || w <= 0 {
		panic(fmt.Sprintf("bad extract [%d:%d] of width %d", hi, lo, a.S.W))
	}
	if a.IsConst() {
		v := new(big.Int).Rsh(a.BigVal(), uint(lo))
		return tb.BVBig(w, v)
	}
	switch a.Op {
	case OZext:
		in := a.A[0]
		if hi < int(in.S.W) {
			return tb.Extract(in, hi, lo)
		}
		if lo >= int(in.S.W) {
			return tb.BVConst(w, 0)
		}
	case OSext:
		in := a.A[0]
		if hi < int(in.S.W) {
			return tb.Extract(in, hi, lo)
		}
	case OConcat:
		// A[0] is the high part
		lw := int(a.A[1].S.W)
		if hi < lw {
			return tb.Extract(a.A[1], hi, lo)
		}
		if lo >= lw {
			return tb.Extract(a.A[0], hi-lw, lo-lw)
		}
	case OExtract:
		return tb.Extract(a.A[0], hi+int(a.P2), lo+int(a.P2))
	case OBor, OBand, OBxor:
		// push extract through bitwise ops when at least one side simplifies to a constant
		x := tb.Extract(a.A[0], hi, lo)
		y := tb.Extract(a.A[1], hi, lo)
		if x.IsConst() || y.IsConst() {
			return tb.Bin(a.Op, x, y)
		}
	case OShl:
		if a.A[1].IsConst() && a.A[1].S.W <= 64 {
			k := int(a.A[1].C)
			if lo >= k {
				return tb.Extract(a.A[0], hi-k, lo-k)
			}
			if hi < k {
				return tb.BVConst(w, 0)
			}
		}
	case OLshr:
		if a.A[1].IsConst() && a.A[1].S.W <= 64 {
			k := int(a.A[1].C)
			if hi+k < int(a.S.W) {
				return tb.Extract(a.A[0], hi+k, lo+k)
			}
		}
	}
	return tb.mk(&Term{Op: OExtract, S: BV(w), A: []*Term{a}, P1: int32(hi), P2: int32(lo)})
}

func (tb *TB) Zext(a *Term, w int) *Term {
	if w == int(a.S.W) {
		return a
	}
	if w < int(a.S.W) {
		return tb.Extract(a, w-1, 0)
	}
	if a.IsConst() {
		return tb.BVBig(w, a.BigVal())
	}
	if a.Op == OZext {
		return tb.Zext(a.A[0], w)
	}
	return tb.mk(&Term{Op: OZext, S: BV(w), A: []*Term{a}, P1: int32(w - int(a.S.W))})
}

func (tb *TB) Sext(a *Term, w int) *Term {
	if w == int(a.S.W) {
		return a
	}
	if w < int(a.S.W) {
		return tb.Extract(a, w-1, 0)
	}
	if a.IsConst() {
		return tb.BVBig(w, a.SignedBig())
	}
	if a.Op == OZext {
		return tb.Zext(a.A[0], w)
	}
	return tb.mk(&Term{Op: OSext, S: BV(w), A: []*Term{a}, P1: int32(w - int(a.S.W))})
}

// Concat: hi is the most significant part.
func (tb *TB) Concat(hi, lo *Term) *Term {
	w := int(hi.S.W + lo.S.W)
	if hi.IsConst() && lo.IsConst() {
		v := new(big.Int).Lsh(hi.BigVal(), uint(lo.S.W))
		v.Or(v, lo.BigVal())
		return tb.BVBig(w, v)
	}
	return tb.mk(&Term{Op: OConcat, S: BV(w), A: []*Term{hi, lo}})
}

// ---------- Int sort ----------

func (tb *TB) IBin(op Op, a, b *Term) *Term {
	if a.IsConst() && b.IsConst() {
		x, y := a.Big, b.Big
		r := new(big.Int)
		switch op {
		case OIAdd:
			return tb.IntConst(r.Add(x, y))
		case OISub:
			return tb.IntConst(r.Sub(x, y))
		case OIMul:
			return tb.IntConst(r.Mul(x, y))
		case OIDiv:
			if y.Sign() != 0 {
				// SMT-LIB div: floor for y>0, ceil for y<0 (Euclidean)
				m := new(big.Int)
				r.DivMod(x, y, m)
				return tb.IntConst(r)
			}
		case OIMod:
			if y.Sign() != 0 {
				m := new(big.Int)
				r.DivMod(x, y, m)
				return tb.IntConst(m)
			}
		case OILt:
			return tb.Bool(x.Cmp(y) < 0)
		case OILe:
			return tb.Bool(x.Cmp(y) <= 0)
		}
	}
	s := SInt
	if op == OILt || op == OILe {
		s = SBool
	}
	switch op {
	case OIAdd:
		if a.IsConst() && a.Big.Sign() == 0 {
			return b
		}
		if b.IsConst() && b.Big.Sign() == 0 {
			return a
		}
	case OISub:
		if b.IsConst() && b.Big.Sign() == 0 {
			return a
		}
	case OIMul:
		if a.IsConst() && a.Big.Cmp(big.NewInt(1)) == 0 {
			return b
		}
		if b.IsConst() && b.Big.Cmp(big.NewInt(1)) == 0 {
			return a
		}
	case OIDiv:
		if b.IsConst() && b.Big.Cmp(big.NewInt(1)) == 0 {
			return a
		}
	}
	return tb.mk(&Term{Op: op, S: s, A: []*Term{a, b}})
}

func (tb *TB) BV2Nat(a *Term) *Term {
	if a.IsConst() {
		return tb.IntConst(a.BigVal())
	}
	if a.Op == OInt2BV {
		// bv2nat(int2bv_w(y)) = y mod 2^w
		return tb.IBin(OIMod, a.A[0], tb.IntConst(new(big.Int).Lsh(big.NewInt(1), uint(a.S.W))))
	}
	if a.Op == OZext {
		return tb.BV2Nat(a.A[0])
	}
	return tb.mk(&Term{Op: OBV2Nat, S: SInt, A: []*Term{a}})
}

func (tb *TB) Int2BV(a *Term, w int) *Term {
	if a.IsConst() {
		return tb.BVBig(w, a.Big)
	}
	if a.Op == OBV2Nat && int(a.A[0].S.W) == w {
		return a.A[0]
	}
	return tb.mk(&Term{Op: OInt2BV, S: BV(w), A: []*Term{a}, P1: int32(w)})
}

// FP operation (opaque to the folder unless constant handled by caller)
func (tb *TB) FP(name string, s Sort, args ...*Term) *Term {
	return tb.mk(&Term{Op: OFPOp, S: s, Name: name, A: args})
}

// ---------- printing ----------

func constSMT(t *Term) string {
	switch t.S.K {
	case KBool:
		if t.C == 1 {
			return "true"
		}
		return "false"
	case KBV:
		w := int(t.S.W)
		if w%4 == 0 {
			s := t.BigVal().Text(16)
			return "#x" + strings.Repeat("0", w/4-len(s)) + s
		}
		s := t.BigVal().Text(2)
		return "#b" + strings.Repeat("0", w-len(s)) + s
	case KFP:
		return fmt.Sprintf("((_ to_fp 11 53) #x%016x)", t.C)
	case KInt:
		if t.Big.Sign() < 0 {
			return "(- " + new(big.Int).Neg(t.Big).String() + ")"
		}
		return t.Big.String()
	}
	panic("constSMT")
}

// Printer emits SMT-LIB2 with define-fun sharing; it tracks scopes so that
// definitions made inside a push are forgotten at the matching pop.
type Printer struct {
	defined map[int32]string // term id -> name (or inline text for leaves)
	decl    map[string]bool
	scopes  [][]int32
	dscopes [][]string
	out     *strings.Builder
}

func NewPrinter() *Printer {
	return &Printer{defined: map[int32]string{}, decl: map[string]bool{}, out: &strings.Builder{}}
}

func (p *Printer) Push() {
	p.scopes = append(p.scopes, nil)
	p.dscopes = append(p.dscopes, nil)
}

func (p *Printer) Pop() {
	n := len(p.scopes) - 1
	for _, id := range p.scopes[n] {
		delete(p.defined, id)
	}
	for _, d := range p.dscopes[n] {
		delete(p.decl, d)
	}
	p.scopes = p.scopes[:n]
	p.dscopes = p.dscopes[:n]
}

func (p *Printer) noteDef(id int32) {
	if n := len(p.scopes); n > 0 {
		p.scopes[n-1] = append(p.scopes[n-1], id)
	}
}

func (p *Printer) noteDecl(name string) {
	p.decl[name] = true
	if n := len(p.dscopes); n > 0 {
		p.dscopes[n-1] = append(p.dscopes[n-1], name)
	}
}

// Ref returns the SMT text naming t, emitting any needed declarations / definitions to p.out.
func (p *Printer) Ref(t *Term) string {
	if s, ok := p.defined[t.id]; ok {
		return s
	}
	// iterative post-order to avoid deep recursion
	type fr struct {
		t *Term
		i int
	}
	stack := []fr{{t, 0}}
	for len(stack) > 0 {
		f := &stack[len(stack)-1]
		if _, ok := p.defined[f.t.id]; ok {
			stack = stack[:len(stack)-1]
			continue
		}
		if f.i < len(f.t.A) {
			c := f.t.A[f.i]
			f.i++
			if _, ok := p.defined[c.id]; !ok {
				stack = append(stack, fr{c, 0})
			}
			continue
		}
		p.emit(f.t)
		stack = stack[:len(stack)-1]
	}
	return p.defined[t.id]
}

func smtName(s string) string {
	return "|" + strings.NewReplacer("|", "_", "\\", "_").Replace(s) + "|"
}

func (p *Printer) emit(t *Term) {
	var text string
	switch t.Op {
	case OConst:
		p.defined[t.id] = constSMT(t)
		p.noteDef(t.id)
		return
	case OSym:
		n := smtName(t.Name)
		if !p.decl[n] {
			fmt.Fprintf(p.out, "(declare-const %s %s)\n", n, t.S)
			p.noteDecl(n)
		}
		p.defined[t.id] = n
		p.noteDef(t.id)
		return
	case OApp:
		n := smtName(t.Name)
		if !p.decl[n] {
			var sb strings.Builder
			for _, a := range t.A {
				sb.WriteString(a.S.String())
				sb.WriteByte(' ')
			}
			fmt.Fprintf(p.out, "(declare-fun %s (%s) %s)\n", n, sb.String(), t.S)
			p.noteDecl(n)
		}
		if len(t.A) == 0 {
			text = n
		} else {
			text = "(" + n + p.args(t) + ")"
		}
	case OExtract:
		text = fmt.Sprintf("((_ extract %d %d)%s)", t.P1, t.P2, p.args(t))
	case OZext:
		text = fmt.Sprintf("((_ zero_extend %d)%s)", t.P1, p.args(t))
	case OSext:
		text = fmt.Sprintf("((_ sign_extend %d)%s)", t.P1, p.args(t))
	case OInt2BV:
		text = fmt.Sprintf("((_ int2bv %d)%s)", t.P1, p.args(t))
	case OFPOp:
		if len(t.A) == 0 {
			p.defined[t.id] = t.Name
			p.noteDef(t.id)
			return
		}
		text = "(" + t.Name + p.args(t) + ")"
	default:
		text = "(" + opNames[t.Op] + p.args(t) + ")"
	}
	name := fmt.Sprintf("t%d", t.id)
	fmt.Fprintf(p.out, "(define-fun %s () %s %s)\n", name, t.S, text)
	p.defined[t.id] = name
	p.noteDef(t.id)
}

func (p *Printer) args(t *Term) string {
	var sb strings.Builder
	for _, a := range t.A {
		sb.WriteByte(' ')
		sb.WriteString(p.defined[a.id])
	}
	return sb.String()
}

// Eval evaluates a term under an assignment of symbols (missing symbols = 0). UF apps are not supported (return nil).
func (t *Term) String() string {
	switch t.Op {
	case OConst:
		return constSMT(t)
	case OSym:
		return t.Name
	}
	var sb strings.Builder
	sb.WriteString("(")
	if t.Op == OApp || t.Op == OFPOp {
		sb.WriteString(t.Name)
	} else if t.Op == OExtract {
		fmt.Fprintf(&sb, "extract[%d:%d]", t.P1, t.P2)
	} else if t.Op == OZext || t.Op == OSext {
		fmt.Fprintf(&sb, "ext%d", t.P1)
	} else {
		sb.WriteString(opNames[t.Op])
	}
	for _, a := range t.A {
		sb.WriteByte(' ')
		s := a.String()
		if len(s) > 200 {
			s = s[:200] + "..."
		}
		sb.WriteString(s)
	}
	sb.WriteString(")")
	return sb.String()
}
