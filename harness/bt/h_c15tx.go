package bt

import (
	"encoding/hex"

	"github.com/libsv/go-bk/base58"
	"github.com/libsv/go-bk/crypto"
	"github.com/libsv/go-bt/v2/bscript"
)

func refP2PKHBytes(h []byte) []byte {
	s := []byte{0x76, 0xa9, 0x14}
	s = append(s, h...)
	return append(s, 0x88, 0xac)
}

// C15 (transaction level): every way a transaction builds a P2PKH output - from an address,
// a key hash (hex), a key (bytes / hex) or a ready-made script - appends exactly one output
// with the canonical 25-byte script and the given amount; a malformed address or a script
// that is not the exact template appends nothing and is an error.
func VH_C15_TxOutputs() {
	h := vnondetBytes("hash", 20, 20)
	mainnet := vnondetBool("mainnet")
	a, err := bscript.NewAddressFromPublicKeyHash(h, mainnet)
	vassert(err == nil, "C15tx: address from hash")
	if err != nil {
		return
	}
	want := refP2PKHBytes(h)
	sats := vnondetU64("sats")
	tx := NewTx()
	check := func(i int, err error, w []byte, label string) {
		ok := err == nil && len(tx.Outputs) == i+1
		if ok {
			o := tx.Outputs[i]
			ok = vand(o.Satoshis == sats, o.LockingScript != nil && vbytesEq(*o.LockingScript, w))
		}
		vassert(ok, label)
	}
	check(0, tx.PayToAddress(a.AddressString, sats), want, "C15tx: PayToAddress appends the canonical script with the amount")
	check(1, tx.AddP2PKHOutputFromAddress(a.AddressString, sats), want, "C15tx: AddP2PKHOutputFromAddress appends the canonical script with the amount")
	check(2, tx.AddP2PKHOutputFromPubKeyHashStr(hex.EncodeToString(h), sats), want, "C15tx: AddP2PKHOutputFromPubKeyHashStr appends the canonical script with the amount")
	s, err := bscript.NewP2PKHFromPubKeyHash(h)
	vassert(err == nil, "C15tx: script from hash")
	if err != nil {
		return
	}
	check(3, tx.PayTo(s, sats), want, "C15tx: PayTo appends the canonical script with the amount")
	check(4, tx.AddP2PKHOutputFromScript(s, sats), want, "C15tx: AddP2PKHOutputFromScript appends the canonical script with the amount")
	k := vnondetBytes("key", 33, 33)
	kw := refP2PKHBytes(crypto.Hash160(k))
	check(5, tx.AddP2PKHOutputFromPubKeyBytes(k, sats), kw, "C15tx: AddP2PKHOutputFromPubKeyBytes appends the script of the key's hash")
	check(6, tx.AddP2PKHOutputFromPubKeyStr(hex.EncodeToString(k), sats), kw, "C15tx: AddP2PKHOutputFromPubKeyStr appends the script of the key's hash")
	// earlier outputs are not disturbed by later additions
	ok := len(tx.Outputs) == 7
	if ok {
		for i := 0; i < 5; i++ {
			ok = vand(ok, vand(tx.Outputs[i].Satoshis == sats, vbytesEq(*tx.Outputs[i].LockingScript, want)))
		}
	}
	vassert(ok, "C15tx: earlier outputs keep their script and amount")
	// change to the address: the change output carries the canonical script
	ctx := &Tx{Version: 1}
	ctx.Inputs = append(ctx.Inputs, &Input{previousTxID: vnondetBytes("txid", 32, 32), SequenceNumber: 0xffffffff,
		PreviousTxSatoshis: vnondetRange("insats", 100000, 200000), PreviousTxScript: s})
	err = ctx.ChangeToAddress(a.AddressString, NewFeeQuote())
	ok = err == nil && len(ctx.Outputs) == 1
	if ok {
		ok = vbytesEq(*ctx.Outputs[0].LockingScript, want)
	}
	vassert(ok, "C15tx: ChangeToAddress pays the change to the canonical script")
	vreach("c15tx-built")
}

// C15 (transaction level, rejection): a Base58 string whose payload has the wrong length or an
// unsupported version byte, and a script that is not the exact P2PKH template, add no output.
func VH_C15_TxReject() {
	tx := NewTx()
	sats := vnondetU64("sats")
	n := 24 + vnondetLen("len", 0, 2)
	d := vnondetBytes("payload", n, n)
	if n == 25 {
		vassume(d[0] != 0x00 && d[0] != 0x6f)
	}
	str := base58.Encode(d)
	e1 := tx.PayToAddress(str, sats)
	vassert(e1 != nil && len(tx.Outputs) == 0, "C15tx: PayToAddress rejects a malformed address and adds nothing")
	e2 := tx.AddP2PKHOutputFromAddress(str, sats)
	vassert(e2 != nil && len(tx.Outputs) == 0, "C15tx: AddP2PKHOutputFromAddress rejects a malformed address and adds nothing")
	ctx := &Tx{Version: 1}
	ctx.Inputs = append(ctx.Inputs, &Input{previousTxID: vnondetBytes("txid", 32, 32), SequenceNumber: 0xffffffff,
		PreviousTxSatoshis: 100000, PreviousTxScript: vp2pkhScript("inpkh")})
	e3 := ctx.ChangeToAddress(str, NewFeeQuote())
	vassert(e3 != nil && len(ctx.Outputs) == 0, "C15tx: ChangeToAddress rejects a malformed address and adds nothing")
	vreach("c15tx-rejected-address")
}

// C15 (transaction level, rejection): a script that differs from the template in one byte, or in length, is not P2PKH.
func VH_C15_TxRejectScript() {
	tx := NewTx()
	sats := vnondetU64("sats")
	// concrete key hash: the error path renders the script type, which tokenises the whole script
	tmpl := refP2PKHBytes([]byte{0x11, 0x4c, 0x00, 0x6a, 0xac, 0x88, 0x14, 0x76, 0xa9, 0x21, 0x01, 0x02, 0x4d, 0xff, 0x51, 0xae, 0x00, 0x63, 0x03, 0x6f})
	var b []byte
	switch vnondetLen("mut", 0, 2) {
	case 0: // one fixed byte changed
		pos := []int{0, 1, 2, 23, 24}[vnondetLen("pos", 0, 4)]
		b = append(b, tmpl...)
		nb := vnondetU8("byte")
		vassume(nb != tmpl[pos])
		b[pos] = nb
	case 1: // one byte appended
		b = append(append(b, tmpl...), vnondetU8("extra"))
	default: // last byte dropped
		b = append(b, tmpl[:24]...)
	}
	sc := bscript.Script(b)
	e4 := tx.PayTo(&sc, sats)
	vassert(e4 != nil && len(tx.Outputs) == 0, "C15tx: PayTo rejects a script that is not the exact P2PKH template")
	vreach("c15tx-rejected-script")
}

// C15 (transaction level, rejection): key material of the wrong size or a bad hex string adds nothing.
func VH_C15_TxRejectKey() {
	tx := NewTx()
	sats := vnondetU64("sats")
	e5 := tx.AddP2PKHOutputFromPubKeyBytes(vnondetBytes("badkey", 32, 32), sats)
	vassert(e5 != nil && len(tx.Outputs) == 0, "C15tx: a 32-byte key is rejected and adds nothing")
	hs := []byte(hex.EncodeToString(vnondetBytes("hash2", 20, 20)))
	hp := []int{0, 1, 20, 38, 39}[vnondetLen("hexpos", 0, 4)]
	c := vnondetU8("hexchar")
	vassume(!(c >= '0' && c <= '9') && !(c >= 'a' && c <= 'f') && !(c >= 'A' && c <= 'F') && c < 0x80)
	hs[hp] = c
	e6 := tx.AddP2PKHOutputFromPubKeyHashStr(string(hs), sats)
	vassert(e6 != nil && len(tx.Outputs) == 0, "C15tx: a key hash that is not hex is rejected and adds nothing")
	vreach("c15tx-rejected-key")
}
