META = {
    "C01": {
        "text": "Bounded symbolic model checking of the real codec code (SSA): every varint value (full 64 bits), every transaction shape and byte buffer inside the stated size bounds is decided by the SMT solver, not sampled; outside the bounds nothing is claimed.",
        "note": "Trusted: gosym's SSA semantics (validated by native replay of sample paths on every run), z3; SHA-256 is an uninterpreted function (only functional consistency assumed).",
    },
}
NOT_APPLICABLE = {}
