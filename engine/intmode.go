package main

// Integer arithmetic mode: values of 64-bit Go integer types (int, uint, int64, uint64,
// uintptr) are SMT Int terms constrained to the type's range, with Go's wrap-around made
// explicit ((mod r 2^64)) only where an interval analysis cannot show the result in range.
// Narrower integer types stay bit-vectors. Used for fee/size arithmetic, where 64-bit
// bit-vector multiplication/division by symbolic operands is out of reach of bit-blasting.

import (
	"fmt"
	"go/token"
	"go/types"
	"math/big"
)

var (
	big0   = big.NewInt(0)
	big1   = big.NewInt(1)
	two63  = new(big.Int).Lsh(big1, 63)
	two64  = new(big.Int).Lsh(big1, 64)
	maxU64 = new(big.Int).Sub(two64, big1)
	maxI64 = new(big.Int).Sub(two63, big1)
	minI64 = new(big.Int).Neg(two63)
)

type ival struct{ lo, hi *big.Int }

func is64(t types.Type) bool {
	b, ok := t.Underlying().(*types.Basic)
	if !ok {
		return false
	}
	switch b.Kind() {
	case types.Int, types.Uint, types.Int64, types.Uint64, types.Uintptr, types.UntypedInt:
		return true
	}
	return false
}

// wideInt reports whether values of type t are represented as SMT Int terms.
func (in *Interp) wideInt(t types.Type) bool { return in.intMode && is64(t) }

// mkInt makes a Go int/int64/uint64 constant in the current representation.
func (in *Interp) mkInt(v int64) *Term {
	if in.intMode {
		return in.tb.IntConst(big.NewInt(v))
	}
	return in.tb.BVConst(64, uint64(v))
}

func (in *Interp) mkUint(v uint64) *Term {
	if in.intMode {
		return in.tb.IntConst(new(big.Int).SetUint64(v))
	}
	return in.tb.BVConst(64, v)
}

// termInt64 returns the value of a constant integer term of either representation.
func termInt64(t *Term, signed bool) int64 {
	if t.S.K == KInt {
		if t.Big.IsInt64() {
			return t.Big.Int64()
		}
		return int64(t.Big.Uint64())
	}
	if signed {
		return toSigned(t.C, t.S.W)
	}
	return int64(t.C)
}

func typeRange(t types.Type) ival {
	if isSigned(t) {
		return ival{minI64, maxI64}
	}
	return ival{big0, maxU64}
}

func (in *Interp) ivalOf(t *Term) (ival, bool) {
	if t.IsConst() && t.S.K == KInt {
		return ival{t.Big, t.Big}, true
	}
	iv, ok := in.ivals[t]
	return iv, ok
}

func (in *Interp) setIval(t *Term, iv ival) *Term {
	if !t.IsConst() {
		in.ivals[t] = iv
	}
	return t
}

// maskOf returns a mask of the bits that may be set in a non-negative Int term (nil = unknown).
func (in *Interp) maskOf(t *Term) *big.Int {
	if t.IsConst() && t.S.K == KInt {
		if t.Big.Sign() < 0 {
			return nil
		}
		return t.Big
	}
	if m, ok := in.masks[t]; ok {
		return m
	}
	if iv, ok := in.ivals[t]; ok && iv.lo.Sign() >= 0 {
		return new(big.Int).Sub(pow2(uint64(iv.hi.BitLen())), big1)
	}
	return nil
}

// intSym creates a fresh Int symbol constrained to [lo,hi].
func (in *Interp) intSym(tag string, lo, hi *big.Int) *Term {
	tb := in.tb
	t := in.freshSym(tag, SInt)
	in.addPC(tb.IBin(OILe, tb.IntConst(lo), t))
	in.addPC(tb.IBin(OILe, t, tb.IntConst(hi)))
	return in.setIval(t, ival{lo, hi})
}

// wrap reduces r (an exact integer result) into the range of Go type ty.
func (in *Interp) wrap(r *Term, riv ival, haveIv bool, ty types.Type) *Term {
	tb := in.tb
	tr := typeRange(ty)
	if haveIv && riv.lo.Cmp(tr.lo) >= 0 && riv.hi.Cmp(tr.hi) <= 0 {
		return in.setIval(r, riv)
	}
	if r.IsConst() {
		v := new(big.Int).Mod(r.Big, two64)
		if isSigned(ty) && v.Cmp(maxI64) > 0 {
			v.Sub(v, two64)
		}
		return tb.IntConst(v)
	}
	var w *Term
	if isSigned(ty) {
		w = tb.IBin(OISub, tb.IBin(OIMod, tb.IBin(OIAdd, r, tb.IntConst(two63)), tb.IntConst(two64)), tb.IntConst(two63))
	} else {
		w = tb.IBin(OIMod, r, tb.IntConst(two64))
	}
	return in.setIval(w, tr)
}

func minBig(xs ...*big.Int) *big.Int {
	m := xs[0]
	for _, x := range xs[1:] {
		if x.Cmp(m) < 0 {
			m = x
		}
	}
	return m
}
func maxBig(xs ...*big.Int) *big.Int {
	m := xs[0]
	for _, x := range xs[1:] {
		if x.Cmp(m) > 0 {
			m = x
		}
	}
	return m
}

func (in *Interp) intNeg(t *Term, ty types.Type) Value {
	tb := in.tb
	r := tb.IBin(OISub, tb.IntConst(big0), t)
	if iv, ok := in.ivalOf(t); ok {
		return in.wrap(r, ival{new(big.Int).Neg(iv.hi), new(big.Int).Neg(iv.lo)}, true, ty)
	}
	return in.wrap(r, ival{}, false, ty)
}

// toBV64 / fromBV64 move between the two representations (bitwise fallback).
func (in *Interp) toBV64(t *Term) *Term {
	if t.S.K == KBV {
		return t
	}
	return in.tb.Int2BV(t, 64)
}

func (in *Interp) fromBV64(t *Term, signed bool) *Term {
	tb := in.tb
	n := tb.BV2Nat(t)
	if !signed {
		return in.setIval(n, ival{big0, maxU64})
	}
	if n.IsConst() {
		v := new(big.Int).Set(n.Big)
		if v.Cmp(maxI64) > 0 {
			v.Sub(v, two64)
		}
		return tb.IntConst(v)
	}
	neg := tb.Cmp(OSlt, t, tb.BVConst(64, 0))
	return in.setIval(tb.Ite(neg, tb.IBin(OISub, n, tb.IntConst(two64)), n), ival{minI64, maxI64})
}

func pow2(k uint64) *big.Int { return new(big.Int).Lsh(big1, uint(k)) }

func (in *Interp) intBin(fr *frame, op token.Token, ty types.Type, a, b *Term, yt types.Type) Value {
	tb := in.tb
	signed := isSigned(ty)
	ia, oka := in.ivalOf(a)
	ib, okb := in.ivalOf(b)
	both := oka && okb
	switch op {
	case token.ADD:
		r := tb.IBin(OIAdd, a, b)
		if both {
			return in.wrap(r, ival{new(big.Int).Add(ia.lo, ib.lo), new(big.Int).Add(ia.hi, ib.hi)}, true, ty)
		}
		return in.wrap(r, ival{}, false, ty)
	case token.SUB:
		r := tb.IBin(OISub, a, b)
		if both {
			return in.wrap(r, ival{new(big.Int).Sub(ia.lo, ib.hi), new(big.Int).Sub(ia.hi, ib.lo)}, true, ty)
		}
		return in.wrap(r, ival{}, false, ty)
	case token.MUL:
		r := tb.IBin(OIMul, a, b)
		if both {
			p1, p2 := new(big.Int).Mul(ia.lo, ib.lo), new(big.Int).Mul(ia.lo, ib.hi)
			p3, p4 := new(big.Int).Mul(ia.hi, ib.lo), new(big.Int).Mul(ia.hi, ib.hi)
			return in.wrap(r, ival{minBig(p1, p2, p3, p4), maxBig(p1, p2, p3, p4)}, true, ty)
		}
		return in.wrap(r, ival{}, false, ty)
	case token.QUO, token.REM:
		fr.fault(tb.Not(tb.Eq(b, tb.IntConst(big0))), "div-zero")
		nonneg := both && ia.lo.Sign() >= 0 && ib.lo.Sign() >= 0
		if !signed || nonneg {
			// for non-negative operands Go's truncated division is SMT div/mod
			if op == token.QUO {
				r := tb.IBin(OIDiv, a, b)
				if both {
					return in.setIval(r, ival{big0, ia.hi})
				}
				return in.setIval(r, typeRange(ty))
			}
			r := tb.IBin(OIMod, a, b)
			if both {
				return in.setIval(r, ival{big0, minBig(ia.hi, ib.hi)})
			}
			return in.setIval(r, typeRange(ty))
		}
		// signed, possibly negative: truncate toward zero
		absA := tb.Ite(tb.IBin(OILt, a, tb.IntConst(big0)), tb.IBin(OISub, tb.IntConst(big0), a), a)
		absB := tb.Ite(tb.IBin(OILt, b, tb.IntConst(big0)), tb.IBin(OISub, tb.IntConst(big0), b), b)
		q := tb.IBin(OIDiv, absA, absB)
		negQ := tb.Not(tb.Eq(tb.IBin(OILt, a, tb.IntConst(big0)), tb.IBin(OILt, b, tb.IntConst(big0))))
		sq := tb.Ite(negQ, tb.IBin(OISub, tb.IntConst(big0), q), q)
		if op == token.QUO {
			return in.wrap(sq, ival{}, false, ty)
		}
		return in.wrap(tb.IBin(OISub, a, tb.IBin(OIMul, sq, b)), ival{}, false, ty)
	case token.LSS:
		return tb.IBin(OILt, a, b)
	case token.LEQ:
		return tb.IBin(OILe, a, b)
	case token.GTR:
		return tb.IBin(OILt, b, a)
	case token.GEQ:
		return tb.IBin(OILe, b, a)
	case token.SHL, token.SHR:
		// shift count may be of any integer type
		if b.IsConst() {
			k := uint64(termInt64(b, false))
			if isSigned(yt) && termInt64(b, true) < 0 {
				fr.fault(tb.False, "negative-shift")
			}
			if k >= 64 {
				if op == token.SHR && signed {
					return tb.Ite(tb.IBin(OILt, a, tb.IntConst(big0)), tb.IntConst(big.NewInt(-1)), tb.IntConst(big0))
				}
				return tb.IntConst(big0)
			}
			if op == token.SHL {
				r := tb.IBin(OIMul, a, tb.IntConst(pow2(k)))
				if oka {
					w := in.wrap(r, ival{new(big.Int).Mul(ia.lo, pow2(k)), new(big.Int).Mul(ia.hi, pow2(k))}, true, ty)
					if w == r {
						if m := in.maskOf(a); m != nil {
							in.masks[r] = new(big.Int).Lsh(m, uint(k))
						}
					}
					return w
				}
				return in.wrap(r, ival{}, false, ty)
			}
			r := tb.IBin(OIDiv, a, tb.IntConst(pow2(k))) // floor division = arithmetic shift for negatives too
			if oka {
				return in.setIval(r, ival{new(big.Int).Rsh(ia.lo, uint(k)), new(big.Int).Rsh(ia.hi, uint(k))})
			}
			return in.setIval(r, typeRange(ty))
		}
	case token.OR, token.XOR:
		// operands with disjoint possible bits: or == xor == add
		if ma, mb := in.maskOf(a), in.maskOf(b); ma != nil && mb != nil && new(big.Int).And(ma, mb).Sign() == 0 {
			r := tb.IBin(OIAdd, a, b)
			u := new(big.Int).Or(ma, mb)
			in.masks[r] = u
			return in.setIval(r, ival{big0, u})
		}
	case token.AND:
		// x & (2^k-1)
		if b.IsConst() && b.S.K == KInt {
			m := new(big.Int).Add(b.Big, big1)
			if b.Big.Sign() >= 0 && m.BitLen() > 0 && new(big.Int).And(m, b.Big).Sign() == 0 && oka && ia.lo.Sign() >= 0 {
				return in.setIval(tb.IBin(OIMod, a, tb.IntConst(m)), ival{big0, b.Big})
			}
		}
	}
	// bitwise fallback through bit-vectors
	x, y := in.toBV64(a), in.toBV64(b)
	var r *Term
	switch op {
	case token.AND:
		r = tb.Bin(OBand, x, y)
	case token.OR:
		r = tb.Bin(OBor, x, y)
	case token.XOR:
		r = tb.Bin(OBxor, x, y)
	case token.AND_NOT:
		r = tb.Bin(OBand, x, tb.BNot(y))
	case token.SHL, token.SHR:
		sb := b
		if sb.S.K == KInt {
			if isSigned(yt) {
				fr.fault(tb.IBin(OILe, tb.IntConst(big0), sb), "negative-shift")
			}
			y = tb.Int2BV(sb, 64)
		} else {
			if isSigned(yt) {
				fr.fault(tb.Not(tb.Cmp(OSlt, sb, tb.zeroOf(sb.S))), "negative-shift")
			}
			y = tb.Zext(sb, 64)
		}
		if op == token.SHL {
			r = tb.Bin(OShl, x, y)
		} else if signed {
			r = tb.Bin(OAshr, x, y)
		} else {
			r = tb.Bin(OLshr, x, y)
		}
	default:
		panic(engineAbort{fmt.Sprintf("int mode: unsupported operator %v", op)})
	}
	return in.fromBV64(r, signed)
}

// intConvWide converts between representations; dst/src are basic integer types.
func (in *Interp) intConvWide(x *Term, src, dst *types.Basic) Value {
	tb := in.tb
	srcWide, dstWide := is64(src), is64(dst)
	switch {
	case srcWide && dstWide:
		// int64 <-> uint64 reinterpretation
		if isSigned(src) == isSigned(dst) {
			return x
		}
		iv, ok := in.ivalOf(x)
		return in.wrap(x, iv, ok, dst)
	case srcWide && !dstWide:
		ds, _, _ := basicSort(dst)
		return tb.Int2BV(x, int(ds.W))
	case !srcWide && dstWide:
		ss, ssigned, _ := basicSort(src)
		if !ssigned {
			return in.setIval(tb.BV2Nat(x), ival{big0, new(big.Int).Sub(pow2(uint64(ss.W)), big1)})
		}
		n := tb.BV2Nat(x)
		if n.IsConst() {
			return tb.IntConst(x.SignedBig())
		}
		half := pow2(uint64(ss.W) - 1)
		neg := tb.Cmp(OSlt, x, tb.zeroOf(x.S))
		r := tb.Ite(neg, tb.IBin(OISub, n, tb.IntConst(pow2(uint64(ss.W)))), n)
		return in.setIval(r, ival{new(big.Int).Neg(half), new(big.Int).Sub(half, big1)})
	}
	panic(engineAbort{"intConvWide: not a wide conversion"})
}
