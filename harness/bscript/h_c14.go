package bscript

func refIsP2PKH(b []byte) bool {
	return len(b) == 25 && b[0] == 0x76 && b[1] == 0xa9 && b[2] == 0x14 && b[23] == 0x88 && b[24] == 0xac
}

func refIsData(b []byte) bool {
	return (len(b) > 0 && b[0] == 0x6a) || (len(b) > 1 && b[0] == 0x00 && b[1] == 0x6a)
}

func vinspectAll(s *Script) {
	t := s.ScriptType()
	p2pkh := s.IsP2PKH()
	_ = s.IsP2PK()
	_ = s.IsP2SH()
	data := s.IsData()
	_ = s.IsMultiSigOut()
	_ = s.IsInscribed()
	_ = s.IsP2PKHInscription()
	_, _ = s.PublicKeyHash()
	_, _ = s.ParseInscription()
	vassert(p2pkh == refIsP2PKH(*s), "IsP2PKH iff exact 25-byte template")
	vassert(data == refIsData(*s), "IsData iff OP_RETURN / OP_FALSE OP_RETURN prefix")
	_, rok := refTokenise(*s)
	if t == ScriptTypePubKey || t == ScriptTypeMultiSig || t == ScriptTypePubKeyHashInscription {
		vassert(rok, "undecodable script never reported as a key-bearing type")
	}
}

// C14-A: every inspection query on an arbitrary short script.
func VH_C14_Inspect() {
	s := Script(vnondetBytes("s", 0, vparam("L", 3)))
	vinspectAll(&s)
	vreach("inspect-done")
}

// C14-B: IsP2PKH / IsP2SH / IsData on fully arbitrary 22..26 byte strings (no tokenising involved).
func VH_C14_Fixed() {
	s := Script(vnondetBytes("s", 22, 26))
	vassert(s.IsP2PKH() == refIsP2PKH(s), "IsP2PKH iff exact 25-byte template (arbitrary bytes)")
	vassert(s.IsData() == refIsData(s), "IsData iff data prefix (arbitrary bytes)")
	_ = s.IsP2SH()
	_ = s.IsInscribed()
	vreach("fixed-done")
}

// vdata: template payload bytes. Symbolic for the exact-template checks; for the mutation
// checks a fixed byte pattern rich in values that matter to a tokeniser (OP_0, direct pushes,
// PUSHDATA1/2/4, OP_RETURN, OP_CHECKSIG ...) so that re-tokenising after the mutated byte does
// not fork on every payload byte.
var vpattern = []byte{0x00, 0x4c, 0x01, 0x6a, 0x14, 0x4d, 0x02, 0xac, 0x4e, 0x51, 0x21, 0x00, 0x4b, 0xff, 0x63, 0x03, 0x68, 0x05, 0x76, 0xae}

var vsymbolicData = true

func vdata(tag string, n int) []byte {
	if vsymbolicData {
		return vnondetBytes(tag, n, n)
	}
	b := make([]byte, n)
	for i := range b {
		b[i] = vpattern[(i*7+len(tag))%len(vpattern)]
	}
	return b
}

func vtemplate(kind int) (Script, string) {
	h := vdata("hash", 20)
	switch kind {
	case 0:
		s := append(Script{OpDUP, OpHASH160, OpDATA20}, h...)
		return append(s, OpEQUALVERIFY, OpCHECKSIG), ScriptTypePubKeyHash
	case 1:
		k := vdata("key33", 33)
		if vsymbolicData {
			vassume(k[0] == 2 || k[0] == 3)
		} else {
			k[0] = 2
		}
		s := append(Script{33}, k...)
		return append(s, OpCHECKSIG), ScriptTypePubKey
	case 2:
		k := vdata("key65", 65)
		if vsymbolicData {
			vassume(k[0] == 4 || k[0] == 6 || k[0] == 7)
		} else {
			k[0] = 4
		}
		s := append(Script{65}, k...)
		return append(s, OpCHECKSIG), ScriptTypePubKey
	case 3: // m-of-n multisig: both counts are any small-integer opcode OP_1..OP_16
		m, n := vnondetU8("multisig-m"), vnondetU8("multisig-n")
		if vsymbolicData {
			vassume(m >= Op1 && m <= Op16 && n >= Op1 && n <= Op16)
		} else {
			m, n = Op1, Op2
		}
		s := Script{m, 33}
		s = append(s, vdata("k1", 33)...)
		s = append(s, 33)
		s = append(s, vdata("k2", 33)...)
		return append(s, n, OpCHECKMULTISIG), ScriptTypeMultiSig
	case 4:
		s := Script{OpRETURN}
		return append(s, vnondetBytes("payload", 0, 3)...), ScriptTypeNullData
	case 5:
		s := Script{OpFALSE, OpRETURN}
		return append(s, vnondetBytes("payload", 0, 3)...), ScriptTypeNullData
	}
	// P2PKH inscription
	s := append(Script{OpDUP, OpHASH160, OpDATA20}, h...)
	s = append(s, OpEQUALVERIFY, OpCHECKSIG, OpFALSE, OpIF, 3, 0x6f, 0x72, 0x64, OpTRUE)
	ct := vnondetBytes("ctype", 1, 2)
	s = append(s, byte(len(ct)))
	s = append(s, ct...)
	s = append(s, OpFALSE)
	d := vnondetBytes("data", 1, 2)
	s = append(s, byte(len(d)))
	s = append(s, d...)
	return append(s, OpENDIF), ScriptTypePubKeyHashInscription
}

// C14-C: standard templates are reported as their type; a template with one byte overwritten,
// one byte removed or a zero-length PUSHDATA inserted never makes an inspection fault.
func VH_C14_Templates() {
	kind := vnondetLen("kind", 0, 6)
	mutation := vnondetLen("mutation", 0, 3)
	vsymbolicData = mutation == 0
	s, want := vtemplate(kind)
	switch mutation {
	case 0:
		vassert(s.ScriptType() == want, "template instance reported as its type")
		if kind == 0 {
			pkh, err := s.PublicKeyHash()
			vassert(err == nil && vbytesEq(pkh, s[3:23]), "P2PKH: hash recovered")
		}
		if kind == 6 {
			ia, err := s.ParseInscription()
			vassert(err == nil, "inscription template parses")
			if err == nil {
				vassert(vbytesEq(*ia.LockingScriptPrefix, s[:25]), "inscription: prefix recovered")
			}
		}
		vreach("template-exact")
	case 1: // overwrite one byte
		pos := vnondetInt("pos")
		vassume(pos >= 0 && pos < len(s))
		pos = vconcInt(pos)
		s[pos] = vnondetU8("newbyte")
		vinspectAll(&s)
		vreach("template-flipped")
	case 2: // remove one byte
		pos := vnondetInt("pos")
		vassume(pos >= 0 && pos < len(s))
		pos = vconcInt(pos)
		t := append(append(Script{}, s[:pos]...), s[pos+1:]...)
		vinspectAll(&t)
		vreach("template-shortened")
	case 3: // insert a zero-length PUSHDATA1 / an OP_0 at an arbitrary position
		pos := vnondetInt("pos")
		vassume(pos >= 0 && pos <= len(s))
		pos = vconcInt(pos)
		ins := []byte{OpPUSHDATA1, 0}
		if vnondetBool("op0") {
			ins = []byte{0}
		}
		t := append(append(append(Script{}, s[:pos]...), ins...), s[pos:]...)
		vinspectAll(&t)
		vreach("template-inserted")
	}
}


// velement: one script element from a small set rich in boundary forms: zero-length and one-byte
// pushes in all four encodings, truncated push headers, a few opcodes.
func velement(tag string) []byte {
	switch vnondetLen(tag+"-form", 0, 13) {
	case 0:
		return []byte{OpFALSE}
	case 1:
		return append([]byte{1}, []byte{0xab}...)
	case 2:
		return []byte{OpPUSHDATA1, 0}
	case 3:
		return append([]byte{OpPUSHDATA1, 1}, []byte{0xab}...)
	case 4:
		return []byte{OpPUSHDATA2, 0, 0}
	case 5:
		return append([]byte{OpPUSHDATA2, 1, 0}, []byte{0xab}...)
	case 6:
		return []byte{OpPUSHDATA4, 0, 0, 0, 0}
	case 7:
		return append([]byte{OpPUSHDATA4, 1, 0, 0, 0}, []byte{0xab}...)
	case 8:
		return []byte{OpPUSHDATA1} // truncated header
	case 9:
		return []byte{OpPUSHDATA2, 1} // truncated header
	case 10:
		return []byte{OpPUSHDATA4, 1, 0, 0} // truncated header
	case 11:
		return []byte{2, 0xff} // truncated direct push
	case 12:
		return []byte{OpRETURN}
	}
	return []byte{OpCHECKSIG}
}

// C14-D: the rendering queries (assembly, address extraction) are total: any first byte, then
// up to E elements from the boundary set above.
func VH_C14_Render() {
	var b []byte
	e := vparam("E", 2)
	if vnondetBool("any-first-byte") {
		b = append(b, vnondetU8("first"))
		e-- // one element fewer behind an arbitrary first byte (which may swallow what follows as push data)
	}
	for i, n := 0, vnondetLen("elems", 0, e); i < n; i++ {
		b = append(b, velement("e")...)
	}
	s := Script(b)
	_, _ = s.ToASM()
	_, _ = s.Addresses()
	vreach("render-done")
}
