#!/bin/bash
cd /verif
run() { echo "== $*"; python3 tools/seed_eval.py "$@" --scratch 2>&1 | grep -v '"needs_to_manifest"' | tail -22; }
run C06 /verif/seeded/C06-b C06-b
run C13 /verif/seeded/C13-d C13-d
run C19 /verif/seeded/C19-c C19-c
run C19 /verif/seeded/C19-d C19-d
run C07 /verif/seeded/C07-d C07-d --check-props C07,C19
run C10 /verif/seeded/C10-d C10-d --check-props C10,C11
