package interpreter

import (
	"encoding/hex"
	"os"
	"strconv"
	"strings"
	"sync"
	"testing"

	"github.com/libsv/go-bt/v2/bscript"
)

// TestVerifRaceConfirm runs a solver-reported racing pair of validations concurrently on one
// engine (confirmation under the race detector; the deciding step is the schedule query).
func TestVerifRaceConfirm(t *testing.T) {
	spec := os.Getenv("VERIF_RACE") // Engine:0:1
	if spec == "" {
		t.Skip("no VERIF_RACE")
	}
	parts := strings.Split(spec, ":")
	if parts[0] == "Scripts" { // Scripts:<locking hex>:<unlocking hex>:<flag set>: the same validation twice at once
		lsb, _ := hex.DecodeString(parts[1])
		usb, _ := hex.DecodeString(parts[2])
		fi, _ := strconv.Atoi(parts[3])
		for it := 0; it < 300; it++ {
			var wg sync.WaitGroup
			wg.Add(2)
			for g := 0; g < 2; g++ {
				go func() {
					defer wg.Done()
					defer func() { _ = recover() }()
					ls, us := bscript.Script(append([]byte{}, lsb...)), bscript.Script(append([]byte{}, usb...))
					_ = NewEngine().Execute(WithScripts(&ls, &us), WithFlags(vC07FlagSets[fi]))
				}()
			}
			wg.Wait()
		}
		return
	}
	m1, _ := strconv.Atoi(parts[1])
	m2, _ := strconv.Atoi(parts[2])
	for it := 0; it < 300; it++ {
		var wg sync.WaitGroup
		wg.Add(2)
		e := NewEngine()
		j1, j2 := vc18NewJob(), vc18NewJob()
		go func() { defer wg.Done(); _ = vc18Call(e, m1, j1) }()
		go func() { defer wg.Done(); _ = vc18Call(e, m2, j2) }()
		wg.Wait()
	}
}
