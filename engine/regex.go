package main

// A small backtracking regular-expression matcher over (possibly symbolic) strings, enough
// for the patterns go-bt uses (anchors, groups, '.', \d, bracket classes, literals, greedy and
// lazy quantifiers, {n} / {n,m}; no alternation). Every character-class test on a symbolic
// character is a solver-decided fork. Leftmost-first semantics as in package regexp.

import (
	"fmt"
	"strconv"
)

type reRange struct{ lo, hi byte }

type reNode struct {
	kind     byte // 'c' class, '(' group open, ')' group close, '^', '$'
	ranges   []reRange
	negate   bool
	any      bool
	min, max int // quantifier (max -1 = unbounded)
	lazy     bool
	group    int
}

type rePattern struct {
	nodes   []reNode
	ngroups int
}

func parseRegex(p string) (*rePattern, error) {
	re := &rePattern{}
	var stack []int
	i := 0
	addAtom := func(n reNode) {
		n.kind = 'c'
		n.min, n.max = 1, 1
		re.nodes = append(re.nodes, n)
	}
	for i < len(p) {
		c := p[i]
		switch c {
		case '^', '$':
			re.nodes = append(re.nodes, reNode{kind: c})
			i++
			continue
		case '(':
			if i+1 < len(p) && p[i+1] == '?' {
				return nil, fmt.Errorf("unsupported group syntax")
			}
			re.ngroups++
			stack = append(stack, re.ngroups)
			re.nodes = append(re.nodes, reNode{kind: '(', group: re.ngroups})
			i++
			continue
		case ')':
			if len(stack) == 0 {
				return nil, fmt.Errorf("unbalanced )")
			}
			g := stack[len(stack)-1]
			stack = stack[:len(stack)-1]
			re.nodes = append(re.nodes, reNode{kind: ')', group: g})
			i++
			if i < len(p) && (p[i] == '*' || p[i] == '+' || p[i] == '?' || p[i] == '{') {
				return nil, fmt.Errorf("quantified groups not supported")
			}
			continue
		case '|':
			return nil, fmt.Errorf("alternation not supported")
		case '.':
			addAtom(reNode{any: true})
			i++
		case '\\':
			if i+1 >= len(p) {
				return nil, fmt.Errorf("trailing backslash")
			}
			e := p[i+1]
			switch e {
			case 'd':
				addAtom(reNode{ranges: []reRange{{'0', '9'}}})
			case 'w':
				addAtom(reNode{ranges: []reRange{{'0', '9'}, {'a', 'z'}, {'A', 'Z'}, {'_', '_'}}})
			case 's':
				addAtom(reNode{ranges: []reRange{{' ', ' '}, {'\t', '\r'}}})
			default:
				addAtom(reNode{ranges: []reRange{{e, e}}})
			}
			i += 2
		case '[':
			j := i + 1
			n := reNode{}
			if j < len(p) && p[j] == '^' {
				n.negate = true
				j++
			}
			for j < len(p) && p[j] != ']' {
				lo := p[j]
				if lo == '\\' && j+1 < len(p) {
					j++
					lo = p[j]
				}
				hi := lo
				if j+2 < len(p) && p[j+1] == '-' && p[j+2] != ']' {
					hi = p[j+2]
					j += 2
				}
				n.ranges = append(n.ranges, reRange{lo, hi})
				j++
			}
			if j >= len(p) {
				return nil, fmt.Errorf("unterminated class")
			}
			addAtom(n)
			i = j + 1
		default:
			addAtom(reNode{ranges: []reRange{{c, c}}})
			i++
		}
		// quantifier
		if i < len(p) {
			last := &re.nodes[len(re.nodes)-1]
			switch p[i] {
			case '*':
				last.min, last.max = 0, -1
				i++
			case '+':
				last.min, last.max = 1, -1
				i++
			case '?':
				last.min, last.max = 0, 1
				i++
			case '{':
				j := i + 1
				for j < len(p) && p[j] != '}' {
					j++
				}
				if j >= len(p) {
					return nil, fmt.Errorf("unterminated {")
				}
				body := p[i+1 : j]
				lo, hi := body, body
				for k := 0; k < len(body); k++ {
					if body[k] == ',' {
						lo, hi = body[:k], body[k+1:]
					}
				}
				a, err := strconv.Atoi(lo)
				if err != nil {
					return nil, err
				}
				b := -1
				if hi != "" {
					b, err = strconv.Atoi(hi)
					if err != nil {
						return nil, err
					}
				}
				last.min, last.max = a, b
				i = j + 1
			default:
				continue
			}
			if i < len(p) && p[i] == '?' {
				last.lazy = true
				i++
			}
		}
	}
	if len(stack) != 0 {
		return nil, fmt.Errorf("unbalanced (")
	}
	return re, nil
}

type reMatcher struct {
	in   *Interp
	fr   *frame
	re   *rePattern
	s    []*Term
	caps []int
	step int
}

func (m *reMatcher) classTest(n *reNode, c *Term) bool {
	tb := m.in.tb
	if n.any {
		// '.' does not match newline
		return m.in.decide(m.fr, nil, tb.Not(tb.Eq(c, tb.BVConst(8, '\n'))))
	}
	cond := tb.False
	for _, r := range n.ranges {
		if r.lo == r.hi {
			cond = tb.Or(cond, tb.Eq(c, tb.BVConst(8, uint64(r.lo))))
		} else {
			cond = tb.Or(cond, tb.And(tb.Cmp(OUle, tb.BVConst(8, uint64(r.lo)), c), tb.Cmp(OUle, c, tb.BVConst(8, uint64(r.hi)))))
		}
	}
	if n.negate {
		cond = tb.Not(cond)
	}
	return m.in.decide(m.fr, nil, cond)
}

func (m *reMatcher) match(ni, pos int) bool {
	m.step++
	if m.step > 200000 {
		panic(boundHit{"regexp matcher step bound"})
	}
	if ni == len(m.re.nodes) {
		m.caps[1] = pos
		return true
	}
	n := &m.re.nodes[ni]
	switch n.kind {
	case '^':
		return pos == 0 && m.match(ni+1, pos)
	case '$':
		return pos == len(m.s) && m.match(ni+1, pos)
	case '(':
		old := m.caps[2*n.group]
		m.caps[2*n.group] = pos
		if m.match(ni+1, pos) {
			return true
		}
		m.caps[2*n.group] = old
		return false
	case ')':
		old := m.caps[2*n.group+1]
		m.caps[2*n.group+1] = pos
		if m.match(ni+1, pos) {
			return true
		}
		m.caps[2*n.group+1] = old
		return false
	}
	// quantified class: count how many characters match from pos (up to max)
	maxN := n.max
	if maxN < 0 || maxN > len(m.s)-pos {
		maxN = len(m.s) - pos
	}
	if n.lazy {
		cnt := 0
		for {
			if cnt >= n.min && m.match(ni+1, pos+cnt) {
				return true
			}
			if cnt >= maxN || !m.classTest(n, m.s[pos+cnt]) {
				return false
			}
			cnt++
		}
	}
	cnt := 0
	for cnt < maxN && m.classTest(n, m.s[pos+cnt]) {
		cnt++
	}
	for k := cnt; k >= n.min; k-- {
		if m.match(ni+1, pos+k) {
			return true
		}
	}
	return false
}

func init() {
	intrinsics["(*regexp.Regexp).FindStringSubmatch"] = func(in *Interp, fr *frame, args []Value) Value {
		o, ok := args[0].(*Opaque)
		if !ok || o == nil || o.Kind != "regexp" {
			panic(engineAbort{"FindStringSubmatch on unmodelled regexp value"})
		}
		pat := o.Data.(string)
		re, err := parseRegex(pat)
		if err != nil {
			panic(engineAbort{"regexp model: " + err.Error() + " in " + pat})
		}
		s := args[1].(Str)
		if s.Opaque {
			panic(engineAbort{"regexp match on opaque string"})
		}
		var cs []*Term
		for _, v := range in.strBytes(s) {
			cs = append(cs, v.(*Term))
		}
		in.usedStubs["regexp: backtracking model of FindStringSubmatch for "+pat] = true
		starts := []int{0}
		anchored := len(re.nodes) > 0 && re.nodes[0].kind == '^'
		if !anchored {
			for i := 1; i <= len(cs); i++ {
				starts = append(starts, i)
			}
		}
		for _, st := range starts {
			m := &reMatcher{in: in, fr: fr, re: re, s: cs, caps: make([]int, 2*(re.ngroups+1))}
			for i := range m.caps {
				m.caps[i] = -1
			}
			m.caps[0] = st
			if m.match(0, st) {
				out := make([]Value, re.ngroups+1)
				for g := 0; g <= re.ngroups; g++ {
					a, b := m.caps[2*g], m.caps[2*g+1]
					if a < 0 || b < 0 {
						out[g] = Str{}
						continue
					}
					sub := Str{B: cs[a:b:b]}
					if sub.IsConcrete() {
						sub = Str{S: sub.Concrete()}
					} else if len(sub.B) == 0 {
						sub = Str{}
					}
					out[g] = sub
				}
				return Slice{A: out}
			}
		}
		return Slice{}
	}
}
