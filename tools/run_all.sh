#!/bin/bash
# runs every claimed check (quick tier) against /repo, sequentially
cd /verif
for id in $(python3 -c "import json; print(' '.join(c['property_id'] for c in json.load(open('MANIFEST.json'))['checks']))"); do
  s=$(date +%s); ./check $id --tier quick > work/all_$id.log 2>&1; rc=$?; e=$(date +%s)
  echo "$id rc=$rc $((e-s))s $(grep -c '^VIOLATION' work/all_$id.log) violations $(grep -c '^KNOWN-FINDING' work/all_$id.log) known"
done
