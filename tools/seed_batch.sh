#!/bin/bash
# usage: seed_batch.sh C02 C03 ...   (evaluates /tmp/wt/<id>/SEED/{a,b})
cd /verif
for id in "$@"; do
  for v in a b; do
    if [ -f /tmp/wt/$id/SEED/$v/patch.diff ]; then
      echo "=== $id-$v"; python3 tools/seed_eval.py $id ${SEEDSRC:-/tmp/wt/$id/SEED}/$v $id-$v $SEEDFLAGS 2>&1 | tail -30
    fi
  done
done
