package bt

import (
	"bytes"
	"io"
)

// shortReader returns at most one byte per Read call (legal io.Reader behaviour).
type vShortReader struct {
	b []byte
	i int
}

func (r *vShortReader) Read(p []byte) (int, error) {
	if r.i >= len(r.b) {
		return 0, io.EOF
	}
	if len(p) == 0 {
		return 0, nil
	}
	p[0] = r.b[r.i]
	r.i++
	return 1, nil
}

func c09cap(b []byte) { vcap(16*len(b)+4096, len(b)+9) }

// C09: every decoding entry point on an arbitrary buffer: no fault, used <= len, allocation bounded.
func VH_C09_Stream() {
	b := vnondetBytes("b", 0, vparam("N", 14))
	c09cap(b)
	_, used, _ := NewTxFromStream(b)
	vassert(used <= len(b), "NewTxFromStream: used<=len(b) on every return")
	vreach("stream-done")
}

func VH_C09_Bytes() {
	b := vnondetBytes("b", 0, vparam("N", 14))
	c09cap(b)
	tx, err := NewTxFromBytes(b)
	vassert((tx == nil) == (err != nil), "NewTxFromBytes: value xor error")
	vreach("bytes-done")
}

func VH_C09_Reader() {
	b := vnondetBytes("b", 0, vparam("N", 12))
	c09cap(b)
	var tx Tx
	n, _ := tx.ReadFrom(&vShortReader{b: b})
	vassert(n <= int64(len(b)), "Tx.ReadFrom(short reader): bytes read <= supplied")
	vreach("reader-done")
}

func VH_C09_Txs() {
	b := vnondetBytes("b", 0, vparam("N", 12))
	c09cap(b)
	var tt Txs
	n, _ := tt.ReadFrom(bytes.NewReader(b))
	vassert(n <= int64(len(b)), "Txs.ReadFrom: bytes read <= supplied")
	vreach("txs-done")
}

func VH_C09_InputOutput() {
	b := vnondetBytes("b", 0, vparam("N", 12))
	c09cap(b)
	switch vnondetLen("which", 0, 2) {
	case 0:
		var in Input
		n, _ := in.ReadFrom(bytes.NewReader(b))
		vassert(n <= int64(len(b)), "Input.ReadFrom: bytes read <= supplied")
	case 1:
		var in Input
		n, _ := in.ReadFromExtended(bytes.NewReader(b))
		vassert(n <= int64(len(b)), "Input.ReadFromExtended: bytes read <= supplied")
	case 2:
		var o Output
		n, _ := o.ReadFrom(bytes.NewReader(b))
		vassert(n <= int64(len(b)), "Output.ReadFrom: bytes read <= supplied")
	}
	vreach("io-done")
}

// Crafted prefixes: a well-formed concrete prefix, then an arbitrary (1..9 byte) length or count
// field and a short arbitrary tail, so that claims up to 2^64-1 are reached directly.
func VH_C09_Crafted() {
	var b []byte
	which := vnondetLen("site", 0, 4)
	switch which {
	case 0: // input count
		b = append(b, 1, 0, 0, 0)
	case 1: // input script length
		b = append(b, 1, 0, 0, 0, 1)
		b = append(b, vnondetBytes("outpoint", 36, 36)...)
	case 2: // output count (no inputs)
		b = append(b, 1, 0, 0, 0, 0)
	case 3: // output script length
		b = append(b, 1, 0, 0, 0, 0, 1)
		b = append(b, vnondetBytes("sats", 8, 8)...)
	case 4: // extended: previous script length
		b = append(b, 1, 0, 0, 0, 0, 0, 0, 0, 0, 0xEF, 1)
		b = append(b, vnondetBytes("outpoint", 36, 36)...)
		b = append(b, 0)
		b = append(b, vnondetBytes("seqsats", 12, 12)...)
	}
	b = append(b, vnondetBytes("lenfield", 1, 9)...)
	b = append(b, vnondetBytes("tail", 0, vparam("T", 2))...)
	// obligation cap proportional to the input; exploration continues only for sizes that the
	// remaining bytes could satisfy (+2), larger ones all end in the same short-read error
	vcap(16*len(b)+4096, 9+vparam("T", 2)+2)
	_, used, _ := NewTxFromStream(b)
	vassert(used <= len(b), "crafted: used<=len(b)")
	vreach("crafted-done")
}

// Crafted transaction-list count: arbitrary varint bytes claiming up to 2^64-1 transactions.
func VH_C09_CraftedTxs() {
	b := vnondetBytes("countfield", 1, 9)
	b = append(b, vnondetBytes("tail", 0, vparam("T", 4))...)
	c09cap(b)
	var tt Txs
	var r io.Reader = bytes.NewReader(b)
	if vnondetBool("plain-reader") {
		r = &vShortReader{b: b} // a reader that exposes nothing but Read (no Len, no Seek)
	}
	n, _ := tt.ReadFrom(r)
	vassert(n <= int64(len(b)), "crafted Txs: bytes read <= supplied")
	vreach("craftedtxs-done")
}
