package main

// encoding/json modelled on Go values: Marshal builds a document tree from the value (by static
// type, honouring json tags, omitempty and custom MarshalJSON methods, which are executed for
// real); Unmarshal fills a value from the tree (custom UnmarshalJSON methods executed for real).
// Contract assumed (trusted base): a value of these wire types comes back equal after
// Marshal -> Unmarshal; the JSON text itself is not modelled, except that string values are
// real bytes `"..."` so that methods which look at them (Script.UnmarshalJSON) work.

import (
	"encoding/json"
	"fmt"
	"go/types"
	"reflect"
	"sort"
	"strings"
)

type jfield struct {
	name string
	node *jnode
}

type jnode struct {
	kind   byte // o a s n b z
	fields []jfield
	elems  []*jnode
	str    Str
	num    *Term
	numT   types.Type
	b      *Term
}

func jsonTag(st *types.Struct, i int) (name string, omitempty, skip bool) {
	f := st.Field(i)
	tag := reflect.StructTag(st.Tag(i)).Get("json")
	name = f.Name()
	if tag == "-" {
		return "", false, true
	}
	if tag != "" {
		parts := strings.Split(tag, ",")
		if parts[0] != "" {
			name = parts[0]
		}
		for _, p := range parts[1:] {
			if p == "omitempty" {
				omitempty = true
			}
		}
	}
	if !f.Exported() {
		return "", false, true
	}
	return name, omitempty, false
}

func (in *Interp) findMethod(t types.Type, name string) *ssaFunc {
	ms := in.prog.MethodSets.MethodSet(t)
	for i := 0; i < ms.Len(); i++ {
		if ms.At(i).Obj().Name() == name {
			return in.prog.MethodValue(ms.At(i))
		}
	}
	return nil
}

// jsonBytes turns a node into the []byte value handed to Go code.
func (in *Interp) jsonBytes(n *jnode) Value {
	if n.kind == 's' && !n.str.Opaque && n.str.B58 == nil {
		cells := []Value{in.tb.BVConst(8, '"')}
		cells = append(cells, in.strBytes(n.str)...)
		cells = append(cells, in.tb.BVConst(8, '"'))
		return Slice{A: cells}
	}
	return Slice{A: []Value{&Opaque{Kind: "json", Data: n}}}
}

// jsonNodeOf recovers a node from bytes: a handle, a quoted string, or concrete JSON text.
func (in *Interp) jsonNodeOf(fr *frame, b Slice) (*jnode, Value) {
	if len(b.A) == 1 {
		if o, ok := b.A[0].(*Opaque); ok && o.Kind == "json" {
			return o.Data.(*jnode), nil
		}
	}
	for _, c := range b.A {
		if _, ok := c.(*Term); !ok {
			panic(engineAbort{"json: bytes mix document handles and text"})
		}
	}
	conc := true
	raw := make([]byte, len(b.A))
	for i, c := range b.A {
		t := c.(*Term)
		if !t.IsConst() {
			conc = false
			break
		}
		raw[i] = byte(t.C)
	}
	if conc {
		var v interface{}
		dec := json.NewDecoder(strings.NewReader(string(raw)))
		dec.UseNumber()
		if err := dec.Decode(&v); err != nil {
			return nil, in.newError(Str{S: "json: " + err.Error()}, nil)
		}
		return in.jsonFromNative(v), nil
	}
	n := len(b.A)
	if n >= 2 {
		f, l := b.A[0].(*Term), b.A[n-1].(*Term)
		if f.IsConst() && l.IsConst() && f.C == '"' && l.C == '"' {
			ts := make([]*Term, n-2)
			for i := range ts {
				ts[i] = b.A[i+1].(*Term)
			}
			in.jsonSafeStr(fr, b.A[1:n-1])
			s := Str{B: ts}
			if len(ts) == 0 {
				s = Str{}
			}
			return &jnode{kind: 's', str: s}, nil
		}
	}
	panic(engineAbort{"json: symbolic JSON text is not modelled"})
}

// jsonSafeStr checks with a single query that no character of s needs JSON escaping.
func (in *Interp) jsonSafeStr(fr *frame, cells []Value) {
	tb := in.tb
	bad := tb.False
	for _, v := range cells {
		c := v.(*Term)
		if c.IsConst() {
			if c.C == '"' || c.C == '\\' || c.C < 0x20 || c.C >= 0x7f {
				panic(engineAbort{"json: string needs escaping (not modelled)"})
			}
			continue
		}
		bad = tb.Or(bad, tb.Or(tb.Or(tb.Eq(c, tb.BVConst(8, '"')), tb.Eq(c, tb.BVConst(8, '\\'))), tb.Or(tb.Cmp(OUlt, c, tb.BVConst(8, 0x20)), tb.Cmp(OUle, tb.BVConst(8, 0x7f), c))))
	}
	if in.decide(fr, nil, bad) {
		panic(engineAbort{"json: string may need escaping (not modelled)"})
	}
}

func (in *Interp) jsonSafeChar(fr *frame, c *Term) {
	if c.IsConst() {
		if c.C == '"' || c.C == '\\' || c.C < 0x20 || c.C >= 0x7f {
			panic(engineAbort{"json: string needs escaping (not modelled)"})
		}
		return
	}
	tb := in.tb
	bad := tb.Or(tb.Or(tb.Eq(c, tb.BVConst(8, '"')), tb.Eq(c, tb.BVConst(8, '\\'))), tb.Or(tb.Cmp(OUlt, c, tb.BVConst(8, 0x20)), tb.Cmp(OUle, tb.BVConst(8, 0x7f), c)))
	if in.decide(fr, nil, bad) {
		panic(engineAbort{"json: string may need escaping (not modelled)"})
	}
}

func (in *Interp) jsonFromNative(v interface{}) *jnode {
	switch v := v.(type) {
	case nil:
		return &jnode{kind: 'z'}
	case bool:
		return &jnode{kind: 'b', b: in.tb.Bool(v)}
	case string:
		return &jnode{kind: 's', str: Str{S: v}}
	case json.Number:
		return &jnode{kind: 'n', str: Str{S: string(v)}}
	case []interface{}:
		n := &jnode{kind: 'a'}
		for _, e := range v {
			n.elems = append(n.elems, in.jsonFromNative(e))
		}
		return n
	case map[string]interface{}:
		n := &jnode{kind: 'o'}
		keys := make([]string, 0, len(v))
		for k := range v {
			keys = append(keys, k)
		}
		sort.Strings(keys)
		for _, k := range keys {
			n.fields = append(n.fields, jfield{k, in.jsonFromNative(v[k])})
		}
		return n
	}
	panic(engineAbort{"json: unexpected native value"})
}

func isByteSlice(t types.Type) bool {
	s, ok := t.Underlying().(*types.Slice)
	if !ok {
		return false
	}
	b, ok := s.Elem().Underlying().(*types.Basic)
	return ok && b.Kind() == types.Uint8
}

// jsonEncode builds the document for value v of static type t. Returns (node, errorIface).
func (in *Interp) jsonEncode(fr *frame, v Value, t types.Type, depth int) (*jnode, Value) {
	if depth > 30 {
		panic(boundHit{"json nesting depth"})
	}
	tb := in.tb
	// nil pointer / nil interface
	if p, ok := v.(*Value); ok && p == nil {
		return &jnode{kind: 'z'}, nil
	}
	if itf, ok := v.(Iface); ok {
		if itf.T == nil {
			return &jnode{kind: 'z'}, nil
		}
		return in.jsonEncode(fr, itf.V, itf.T, depth+1)
	}
	// custom marshaller
	if m := in.findMethod(t, "MarshalJSON"); m != nil && !types.IsInterface(t) {
		recv := v
		res := in.callSSA(fr, m, []Value{recv}, nil).(Tuple)
		if e := res[1].(Iface); e.T != nil {
			return nil, e
		}
		n, perr := in.jsonNodeOf(fr, res[0].(Slice))
		if perr != nil {
			return nil, perr
		}
		return n, nil
	}
	switch u := t.Underlying().(type) {
	case *types.Pointer:
		p := v.(*Value)
		// a non-pointer-receiver MarshalJSON on the element is found by the recursive call
		return in.jsonEncode(fr, in.load(fr, p), u.Elem(), depth+1)
	case *types.Basic:
		switch {
		case u.Info()&types.IsString != 0:
			s := v.(Str)
			if s.Opaque && s.B58 == nil {
				return &jnode{kind: 's', str: s}, nil
			}
			if s.B58 == nil {
				in.jsonSafeStr(fr, in.strBytes(s))
			}
			return &jnode{kind: 's', str: s}, nil
		case u.Info()&types.IsBoolean != 0:
			return &jnode{kind: 'b', b: v.(*Term)}, nil
		case u.Info()&(types.IsInteger|types.IsFloat) != 0:
			return &jnode{kind: 'n', num: v.(*Term), numT: t}, nil
		}
	case *types.Struct:
		st := v.(Struct)
		n := &jnode{kind: 'o'}
		for i := 0; i < u.NumFields(); i++ {
			f := u.Field(i)
			if f.Embedded() && reflect.StructTag(u.Tag(i)).Get("json") == "" {
				// flatten embedded struct / pointer to struct
				ft := f.Type()
				fv := st[i]
				if pt, ok := ft.Underlying().(*types.Pointer); ok {
					p := fv.(*Value)
					if p == nil {
						continue
					}
					fv, ft = in.load(fr, p), pt.Elem()
				}
				if _, ok := ft.Underlying().(*types.Struct); ok {
					sub, err := in.jsonEncode(fr, fv, ft, depth+1)
					if err != nil {
						return nil, err
					}
					if sub.kind == 'o' {
						n.fields = append(n.fields, sub.fields...)
					}
					continue
				}
			}
			name, omit, skip := jsonTag(u, i)
			if skip {
				continue
			}
			if omit && in.jsonIsEmpty(st[i]) {
				continue
			}
			sub, err := in.jsonEncode(fr, st[i], f.Type(), depth+1)
			if err != nil {
				return nil, err
			}
			n.fields = append(n.fields, jfield{name, sub})
		}
		return n, nil
	case *types.Slice:
		s := v.(Slice)
		if s.A == nil {
			return &jnode{kind: 'z'}, nil
		}
		if isByteSlice(t) {
			// json.RawMessage has its own MarshalJSON (handled above); plain []byte would be base64
			if len(s.A) == 1 {
				if o, ok := s.A[0].(*Opaque); ok && o.Kind == "json" {
					return o.Data.(*jnode), nil
				}
			}
			panic(engineAbort{"json: []byte as base64 is not modelled"})
		}
		n := &jnode{kind: 'a'}
		for i := range s.A {
			sub, err := in.jsonEncode(fr, copyVal(s.A[i]), u.Elem(), depth+1)
			if err != nil {
				return nil, err
			}
			n.elems = append(n.elems, sub)
		}
		return n, nil
	case *types.Array:
		a := v.(Array)
		n := &jnode{kind: 'a'}
		for i := range a {
			sub, err := in.jsonEncode(fr, copyVal(a[i]), u.Elem(), depth+1)
			if err != nil {
				return nil, err
			}
			n.elems = append(n.elems, sub)
		}
		return n, nil
	case *types.Map:
		m := v.(*Map)
		if m == nil {
			return &jnode{kind: 'z'}, nil
		}
		if in.race != nil {
			in.curFn = fr.fn
			in.raceAccessMap(m, false)
		}
		n := &jnode{kind: 'o'}
		type kv struct {
			k string
			v Value
		}
		var kvs []kv
		for _, e := range m.entries {
			if e.Deleted {
				continue
			}
			ks, ok := e.K.(Str)
			if !ok || !ks.IsConcrete() {
				panic(engineAbort{"json: map key is not a concrete string"})
			}
			kvs = append(kvs, kv{ks.Concrete(), e.V})
		}
		sort.Slice(kvs, func(i, j int) bool { return kvs[i].k < kvs[j].k })
		for _, e := range kvs {
			sub, err := in.jsonEncode(fr, copyVal(e.v), u.Elem(), depth+1)
			if err != nil {
				return nil, err
			}
			n.fields = append(n.fields, jfield{e.k, sub})
		}
		return n, nil
	case *types.Interface:
		return &jnode{kind: 'z'}, nil
	}
	_ = tb
	panic(engineAbort{fmt.Sprintf("json: cannot encode %v", t)})
}

func (in *Interp) jsonIsEmpty(v Value) bool {
	switch v := v.(type) {
	case *Value:
		return v == nil
	case Str:
		return !v.Opaque && v.Len() == 0
	case Slice:
		return len(v.A) == 0
	case *Map:
		return v == nil || v.n == 0
	case Iface:
		return v.T == nil
	case *Term:
		if v.IsConst() {
			if v.S.K == KInt {
				return v.Big.Sign() == 0
			}
			if v.S.K == KFP {
				return v.C == 0
			}
			return v.C == 0
		}
		panic(engineAbort{"json: omitempty on a symbolic scalar"})
	}
	return false
}

func (in *Interp) jsonTypeErr(what string) Value {
	return in.newError(Str{S: "json: cannot unmarshal " + what}, nil)
}

// jsonFill stores node n into the cell of static type t.
func (in *Interp) jsonFill(fr *frame, n *jnode, t types.Type, cell *Value, depth int) Value {
	if depth > 30 {
		panic(boundHit{"json nesting depth"})
	}
	tb := in.tb
	// custom unmarshaller on *T
	if !types.IsInterface(t) {
		pt := types.NewPointer(t)
		if _, isPtr := t.Underlying().(*types.Pointer); !isPtr {
			if m := in.findMethod(pt, "UnmarshalJSON"); m != nil {
				if n.kind == 'z' {
					return nil // encoding/json: null is a no-op for Unmarshalers reached through a non-pointer
				}
				r := in.callSSA(fr, m, []Value{cell, in.jsonBytes(n)}, nil)
				if e, ok := r.(Iface); ok && e.T != nil {
					return e
				}
				return nil
			}
		}
	}
	switch u := t.Underlying().(type) {
	case *types.Pointer:
		if n.kind == 'z' {
			*cell = (*Value)(nil)
			return nil
		}
		p, _ := (*cell).(*Value)
		if p == nil {
			p = new(Value)
			*p = in.zero(u.Elem())
			*cell = p
		}
		return in.jsonFill(fr, n, u.Elem(), p, depth+1)
	case *types.Basic:
		if n.kind == 'z' {
			return nil
		}
		switch {
		case u.Info()&types.IsString != 0:
			if n.kind != 's' {
				return in.jsonTypeErr("non-string into string")
			}
			*cell = n.str
			return nil
		case u.Info()&types.IsBoolean != 0:
			if n.kind != 'b' {
				return in.jsonTypeErr("non-bool into bool")
			}
			*cell = n.b
			return nil
		case u.Info()&(types.IsInteger|types.IsFloat) != 0:
			if n.kind != 'n' {
				return in.jsonTypeErr("non-number into number")
			}
			if n.num == nil {
				// concrete literal from text
				lit := n.str.S
				if u.Info()&types.IsFloat != 0 {
					var f float64
					fmt.Sscan(lit, &f)
					*cell = in.fpConst(f)
					return nil
				}
				var iv int64
				if _, err := fmt.Sscan(lit, &iv); err != nil {
					return in.jsonTypeErr("number " + lit)
				}
				*cell = in.conv(fr, t, types.Typ[types.Int64], in.mkInt(iv))
				return nil
			}
			if types.Identical(n.numT.Underlying(), u) {
				*cell = n.num
				return nil
			}
			srcB := n.numT.Underlying().(*types.Basic)
			if srcB.Info()&types.IsInteger != 0 && u.Info()&types.IsInteger != 0 {
				// integer of another width: must fit, else UnmarshalTypeError
				conv := in.conv(fr, t, n.numT, n.num).(*Term)
				back := in.conv(fr, n.numT, t, conv).(*Term)
				if in.decide(fr, nil, in.equals(fr, n.numT, back, n.num)) {
					*cell = conv
					return nil
				}
				return in.jsonTypeErr("number out of range")
			}
			panic(engineAbort{fmt.Sprintf("json: number of type %v into %v", n.numT, t)})
		}
	case *types.Struct:
		if n.kind == 'z' {
			return nil
		}
		if n.kind != 'o' {
			return in.jsonTypeErr("non-object into struct")
		}
		st := (*cell).(Struct)
		for i := 0; i < u.NumFields(); i++ {
			name, _, skip := jsonTag(u, i)
			if skip {
				continue
			}
			for _, f := range n.fields {
				if f.name == name || strings.EqualFold(f.name, name) {
					if err := in.jsonFill(fr, f.node, u.Field(i).Type(), &st[i], depth+1); err != nil {
						return err
					}
				}
			}
		}
		return nil
	case *types.Slice:
		if n.kind == 'z' {
			*cell = Slice{}
			return nil
		}
		if isByteSlice(t) {
			panic(engineAbort{"json: []byte target is not modelled"})
		}
		if n.kind != 'a' {
			return in.jsonTypeErr("non-array into slice")
		}
		cells := make([]Value, len(n.elems))
		for i := range cells {
			cells[i] = in.zero(u.Elem())
			if err := in.jsonFill(fr, n.elems[i], u.Elem(), &cells[i], depth+1); err != nil {
				return err
			}
		}
		*cell = Slice{A: cells}
		return nil
	case *types.Map:
		if n.kind == 'z' {
			return nil
		}
		if n.kind != 'o' {
			return in.jsonTypeErr("non-object into map")
		}
		m, _ := (*cell).(*Map)
		if m == nil {
			m = newMap()
			*cell = m
		}
		for _, f := range n.fields {
			var vc Value = in.zero(u.Elem())
			if err := in.jsonFill(fr, f.node, u.Elem(), &vc, depth+1); err != nil {
				return err
			}
			m.set(in, Str{S: f.name}, vc)
		}
		return nil
	case *types.Interface:
		panic(engineAbort{"json: unmarshal into interface value is not modelled"})
	}
	_ = tb
	panic(engineAbort{fmt.Sprintf("json: cannot decode into %v", t)})
}

func init() {
	intrinsics["encoding/json.Marshal"] = func(in *Interp, fr *frame, args []Value) Value {
		in.usedStubs["encoding/json: value-level model (Marshal then Unmarshal of the same wire types is the identity; JSON text not modelled)"] = true
		itf := args[0].(Iface)
		if itf.T == nil {
			return Tuple{in.jsonBytes(&jnode{kind: 'z'}), Iface{}}
		}
		n, err := in.jsonEncode(fr, itf.V, itf.T, 0)
		if err != nil {
			return Tuple{Slice{}, err}
		}
		return Tuple{in.jsonBytes(n), Iface{}}
	}
	intrinsics["encoding/json.Unmarshal"] = func(in *Interp, fr *frame, args []Value) Value {
		in.usedStubs["encoding/json: value-level model (Marshal then Unmarshal of the same wire types is the identity; JSON text not modelled)"] = true
		n, perr := in.jsonNodeOf(fr, args[0].(Slice))
		if perr != nil {
			return perr
		}
		itf := args[1].(Iface)
		pt, ok := itf.T.Underlying().(*types.Pointer)
		p, _ := itf.V.(*Value)
		if itf.T == nil || !ok || p == nil {
			return in.newError(Str{S: "json: Unmarshal(non-pointer or nil)"}, nil)
		}
		// a pointer that itself implements Unmarshaler (e.g. tx.NodeJSON() wrappers)
		if m := in.findMethod(itf.T, "UnmarshalJSON"); m != nil {
			r := in.callSSA(fr, m, []Value{itf.V, in.jsonBytes(n)}, nil)
			if e, ok := r.(Iface); ok && e.T != nil {
				return e
			}
			return Iface{}
		}
		if err := in.jsonFill(fr, n, pt.Elem(), p, 0); err != nil {
			return err
		}
		return Iface{}
	}
}
