package main

import (
	"crypto/sha1"
	"crypto/sha256"
	"fmt"
	"go/types"
	"golang.org/x/tools/go/ssa"
	"math"
	"math/big"
	"strings"
)

type intrinsic func(in *Interp, fr *frame, args []Value) Value

var intrinsics = map[string]intrinsic{}

func init() {
	intrinsics["bytes.Equal"] = func(in *Interp, fr *frame, args []Value) Value {
		return in.bytesEq(args[0].(Slice), args[1].(Slice))
	}
	intrinsics["crypto/sha256.Sum256"] = func(in *Interp, fr *frame, args []Value) Value {
		return Array(in.hashUF("sha256", 32, args[0].(Slice).A))
	}
	intrinsics["crypto/sha1.Sum"] = func(in *Interp, fr *frame, args []Value) Value {
		return Array(in.hashUF("sha1", 20, args[0].(Slice).A))
	}
	intrinsics["github.com/libsv/go-bk/crypto.Sha256"] = func(in *Interp, fr *frame, args []Value) Value {
		return Slice{A: in.hashUF("sha256", 32, args[0].(Slice).A)}
	}
	intrinsics["github.com/libsv/go-bk/crypto.Sha256d"] = func(in *Interp, fr *frame, args []Value) Value {
		return Slice{A: in.hashUF("sha256", 32, in.hashUF("sha256", 32, args[0].(Slice).A))}
	}
	intrinsics["github.com/libsv/go-bk/crypto.Ripemd160"] = func(in *Interp, fr *frame, args []Value) Value {
		return Slice{A: in.hashUF("ripemd160", 20, args[0].(Slice).A)}
	}
	intrinsics["github.com/libsv/go-bk/crypto.Hash160"] = func(in *Interp, fr *frame, args []Value) Value {
		return Slice{A: in.hashUF("ripemd160", 20, in.hashUF("sha256", 32, args[0].(Slice).A))}
	}
	// sync: single-threaded execution
	for _, n := range []string{"(*sync.RWMutex).Lock", "(*sync.RWMutex).Unlock", "(*sync.RWMutex).RLock", "(*sync.RWMutex).RUnlock", "(*sync.Mutex).Lock", "(*sync.Mutex).Unlock"} {
		name := n
		intrinsics[name] = func(in *Interp, fr *frame, args []Value) Value {
			if fr.caller != nil {
				in.curFn = fr.caller.fn
			}
			in.lockEvent(name, args[0])
			return nil
		}
	}
	// sync.Pool: a last-in first-out free list per pool object (one of the behaviours the real pool
	// may show, and the adversarial one: Get hands back exactly what the last Put stored)
	poolItems := func(in *Interp, p Value) (string, []Value) {
		key := fmt.Sprintf("syncpool:%p", p)
		if v, ok := in.ghost[key]; ok {
			return key, v.(Tuple)
		}
		return key, nil
	}
	intrinsics["(*sync.Pool).Put"] = func(in *Interp, fr *frame, args []Value) Value {
		key, items := poolItems(in, args[0])
		in.ghost[key] = append(Tuple{}, append(items, args[1])...)
		return nil
	}
	intrinsics["(*sync.Pool).Get"] = func(in *Interp, fr *frame, args []Value) Value {
		key, items := poolItems(in, args[0])
		if n := len(items); n > 0 {
			in.ghost[key] = append(Tuple{}, items[:n-1]...)
			return items[n-1]
		}
		pp, ok := args[0].(*Value)
		if !ok || pp == nil {
			fr.fault(in.tb.False, "nil-deref")
		}
		st := (*pp).(Struct)
		newFn := st[len(st)-1] // the New field is the last one
		switch f := newFn.(type) {
		case *ssa.Function:
			if f == nil {
				return Iface{}
			}
		case *Closure:
			if f == nil {
				return Iface{}
			}
		case nil:
			return Iface{}
		}
		return in.call(fr, nil, newFn, nil)
	}
	intrinsics["log.Fatal"] = func(in *Interp, fr *frame, args []Value) Value {
		in.obligation(in.tb.False, "fault:log.Fatal@"+fr.callerName(), true)
		panic(pathEnd{"log.Fatal"})
	}
	intrinsics["log.Fatalf"] = intrinsics["log.Fatal"]
	intrinsics["os.Exit"] = intrinsics["log.Fatal"]
	intrinsics["fmt.Println"] = func(in *Interp, fr *frame, args []Value) Value {
		return Tuple{in.mkInt(0), Iface{}}
	}
	intrinsics["fmt.Sprintf"] = func(in *Interp, fr *frame, args []Value) Value {
		return in.sprintf(args[0].(Str), args[1].(Slice).A)
	}
	intrinsics["fmt.Sprint"] = func(in *Interp, fr *frame, args []Value) Value {
		var parts []Str
		for _, a := range args[0].(Slice).A {
			parts = append(parts, in.formatVerb('v', "", a))
		}
		r := Str{}
		for _, p := range parts {
			r = in.strConcat(r, p)
		}
		return r
	}
	intrinsics["fmt.Errorf"] = func(in *Interp, fr *frame, args []Value) Value {
		format := args[0].(Str)
		va := args[1].(Slice).A
		msg := in.sprintf(format, va)
		var cause Value
		if format.IsConcrete() && strings.Contains(format.Concrete(), "%w") {
			// find the %w operand
			idx := 0
			f := format.Concrete()
			for i := 0; i < len(f); i++ {
				if f[i] == '%' {
					j := i + 1
					for j < len(f) && strings.ContainsRune("+-# 0123456789.", rune(f[j])) {
						j++
					}
					if j < len(f) {
						if f[j] == 'w' {
							if idx < len(va) {
								cause = va[idx]
							}
							break
						}
						if f[j] != '%' {
							idx++
						}
					}
					i = j
				}
			}
		}
		return in.newError(msg, cause)
	}
	intrinsics["errors.New"] = func(in *Interp, fr *frame, args []Value) Value {
		return in.newError(args[0].(Str), nil)
	}
	intrinsics["github.com/pkg/errors.New"] = intrinsics["errors.New"]
	intrinsics["github.com/pkg/errors.Errorf"] = func(in *Interp, fr *frame, args []Value) Value {
		return in.newError(in.sprintf(args[0].(Str), args[1].(Slice).A), nil)
	}
	intrinsics["github.com/pkg/errors.Wrap"] = func(in *Interp, fr *frame, args []Value) Value {
		e := args[0].(Iface)
		if e.T == nil {
			return Iface{}
		}
		return in.newError(args[1].(Str), e)
	}
	intrinsics["github.com/pkg/errors.Wrapf"] = func(in *Interp, fr *frame, args []Value) Value {
		e := args[0].(Iface)
		if e.T == nil {
			return Iface{}
		}
		return in.newError(in.sprintf(args[1].(Str), args[2].(Slice).A), e)
	}
	intrinsics["github.com/pkg/errors.WithStack"] = func(in *Interp, fr *frame, args []Value) Value {
		return args[0]
	}
	isFn := func(in *Interp, fr *frame, args []Value) Value {
		err, target := args[0].(Iface), args[1].(Iface)
		return in.errorsIs(fr, err, target)
	}
	intrinsics["errors.Is"] = isFn
	intrinsics["github.com/pkg/errors.Is"] = isFn
	intrinsics["errors.As"] = func(in *Interp, fr *frame, args []Value) Value {
		return in.errorsAs(fr, args[0].(Iface), args[1].(Iface))
	}
	intrinsics["github.com/pkg/errors.As"] = intrinsics["errors.As"]
	intrinsics["errors.Unwrap"] = func(in *Interp, fr *frame, args []Value) Value {
		return in.unwrapErr(fr, args[0].(Iface))
	}
}

func (fr *frame) callerName() string {
	if fr.caller != nil {
		return fr.caller.fn.String()
	}
	return fr.fn.String()
}

func (in *Interp) lockEvent(name string, mu Value) {
	if in.race == nil {
		return
	}
	p, _ := mu.(*Value)
	k := byte('L')
	switch {
	case strings.HasSuffix(name, ".RLock"):
		k = 'l'
	case strings.HasSuffix(name, ".RUnlock"):
		k = 'u'
	case strings.HasSuffix(name, ".Unlock"):
		k = 'U'
	}
	in.raceLog(k, p, nil, "")
}

func (in *Interp) bytesEq(a, b Slice) *Term {
	tb := in.tb
	if len(a.A) != len(b.A) {
		return tb.False
	}
	res := tb.True
	for i := range a.A {
		res = tb.And(res, tb.Eq(a.A[i].(*Term), b.A[i].(*Term)))
	}
	return res
}

// hashUF models a hash function: real digest on concrete input, otherwise an uninterpreted
// function (one per algorithm and input length) of the concatenated input bytes.
func (in *Interp) hashUF(alg string, outLen int, data []Value) []Value {
	tb := in.tb
	conc := true
	for _, d := range data {
		if !d.(*Term).IsConst() {
			conc = false
			break
		}
	}
	out := make([]Value, outLen)
	if conc && alg != "ripemd160" {
		raw := make([]byte, len(data))
		for i, d := range data {
			raw[i] = byte(d.(*Term).C)
		}
		var sum []byte
		switch alg {
		case "sha256":
			s := sha256.Sum256(raw)
			sum = s[:]
		case "sha1":
			s := sha1.Sum(raw)
			sum = s[:]
		}
		for i := range out {
			out[i] = tb.BVConst(8, uint64(sum[i]))
		}
		in.hashConc = append(in.hashConc, hashConcRec{alg, raw, sum})
		return out
	}
	if conc && alg == "ripemd160" {
		raw := make([]byte, len(data))
		for i, d := range data {
			raw[i] = byte(d.(*Term).C)
		}
		sum := ripemd160Sum(raw)
		for i := range out {
			out[i] = tb.BVConst(8, uint64(sum[i]))
		}
		in.hashConc = append(in.hashConc, hashConcRec{alg, raw, sum})
		return out
	}
	name := fmt.Sprintf("%s_%d", alg, len(data))
	var h *Term
	if len(data) == 0 {
		h = tb.App(name, BV(outLen*8))
	} else {
		var arg *Term
		for _, d := range data {
			if arg == nil {
				arg = d.(*Term)
			} else {
				arg = tb.Concat(arg, d.(*Term))
			}
		}
		h = tb.App(name, BV(outLen*8), arg)
	}
	in.usedStubs["hash:"+alg] = true
	in.hashApps = append(in.hashApps, h)
	for i := range out {
		hi := (outLen-i)*8 - 1
		out[i] = tb.Extract(h, hi, hi-7)
	}
	return out
}

// ---------- errors ----------

var errNamedType types.Type // set at load time: the universe "error" type is an interface; we need a concrete dynamic type marker

func (in *Interp) newError(msg Str, cause Value) Value {
	o := &Opaque{Kind: "error", Msg: msg}
	if c, ok := cause.(Iface); ok && c.T != nil {
		o.Cause = c
	}
	return Iface{T: opaqueErrType, V: o}
}

func (in *Interp) callOpaqueMethod(fr *frame, m *opaqueMethod, args []Value) Value {
	switch m.o.Kind {
	case "error":
		switch m.name {
		case "Error":
			if c, ok := m.o.Cause.(Iface); ok && c.T != nil {
				return Str{S: "<error>", Opaque: true}
			}
			return m.o.Msg
		case "Unwrap", "Cause":
			if c, ok := m.o.Cause.(Iface); ok {
				return c
			}
			return Iface{}
		}
	}
	if m.o.Kind == "hasher" {
		return in.hasherMethod(m.o, m.name, args)
	}
	panic(engineAbort{"opaque method " + m.o.Kind + "." + m.name})
}

func (in *Interp) unwrapErr(fr *frame, e Iface) Iface {
	if e.T == nil {
		return Iface{}
	}
	if o, ok := e.V.(*Opaque); ok && o != nil {
		if c, ok := o.Cause.(Iface); ok {
			return c
		}
		return Iface{}
	}
	// real type with Unwrap() error ?
	if f := in.lookupMethodByName(e.T, "Unwrap"); f != nil && f.Signature.Params().Len() == 0 && f.Signature.Results().Len() == 1 {
		r := in.callSSA(fr, f, []Value{e.V}, nil)
		if ri, ok := r.(Iface); ok {
			return ri
		}
	}
	return Iface{}
}

func (in *Interp) errorsIs(fr *frame, err, target Iface) Value {
	tb := in.tb
	for i := 0; i < 50; i++ {
		if err.T == nil {
			return tb.Bool(target.T == nil && i == 0)
		}
		if target.T != nil && types.Identical(err.T, target.T) && types.Comparable(err.T) {
			eq := in.equals(fr, err.T, err.V, target.V)
			if eq.IsTrue() {
				return tb.True
			}
			if !eq.IsFalse() {
				if in.decide(fr, nil, eq) {
					return tb.True
				}
			}
		}
		if _, isOp := err.V.(*Opaque); !isOp {
			if f := in.lookupMethodByName(err.T, "Is"); f != nil {
				r := in.callSSA(fr, f, []Value{err.V, target}, nil).(*Term)
				if in.decide(fr, nil, r) {
					return tb.True
				}
			}
		}
		err = in.unwrapErr(fr, err)
	}
	return tb.False
}

func (in *Interp) errorsAs(fr *frame, err Iface, target Iface) Value {
	tb := in.tb
	pt, ok := target.T.Underlying().(*types.Pointer)
	if !ok {
		panic(engineAbort{"errors.As target not a pointer"})
	}
	want := pt.Elem()
	for i := 0; i < 50 && err.T != nil; i++ {
		match := false
		if types.IsInterface(want) {
			if _, isOp := err.V.(*Opaque); !isOp {
				match = types.Implements(err.T, want.Underlying().(*types.Interface))
			}
		} else {
			match = types.Identical(err.T, want)
		}
		if match {
			p := target.V.(*Value)
			if types.IsInterface(want) {
				*p = err
			} else {
				*p = copyVal(err.V)
			}
			return tb.True
		}
		err = in.unwrapErr(fr, err)
	}
	return tb.False
}

// ---------- fmt ----------

func (in *Interp) sprintf(format Str, args []Value) Str {
	if !format.IsConcrete() {
		return Str{S: "<fmt>", Opaque: true}
	}
	f := format.Concrete()
	res := Str{}
	lit := func(s string) { res = in.strConcat(res, Str{S: s}) }
	argi := 0
	for i := 0; i < len(f); i++ {
		c := f[i]
		if c != '%' {
			j := i
			for j < len(f) && f[j] != '%' {
				j++
			}
			lit(f[i:j])
			i = j - 1
			continue
		}
		j := i + 1
		for j < len(f) && strings.ContainsRune("+-# 0123456789.", rune(f[j])) {
			j++
		}
		if j >= len(f) {
			lit("%!(NOVERB)")
			break
		}
		flags := f[i+1 : j]
		verb := f[j]
		i = j
		if verb == '%' {
			lit("%")
			continue
		}
		if argi >= len(args) {
			lit("%!" + string(verb) + "(MISSING)")
			continue
		}
		res = in.strConcat(res, in.formatVerb(verb, flags, args[argi]))
		argi++
	}
	return res
}

func opaqueStr() Str { return Str{S: "<opaque>", Opaque: true} }

func hexDigit(tb *TB, nib *Term) *Term {
	// nib is BV8 in 0..15
	lt := tb.Cmp(OUlt, nib, tb.BVConst(8, 10))
	return tb.Ite(lt, tb.Bin(OAdd, nib, tb.BVConst(8, '0')), tb.Bin(OAdd, nib, tb.BVConst(8, 'a'-10)))
}

type hexOrig struct {
	b  *Term
	hi bool
}

func (in *Interp) hexOfBytes(cells []Value) Str {
	tb := in.tb
	out := make([]*Term, 0, 2*len(cells))
	for _, c := range cells {
		b := c.(*Term)
		hi, lo := hexDigit(tb, tb.Bin(OLshr, b, tb.BVConst(8, 4))), hexDigit(tb, tb.Bin(OBand, b, tb.BVConst(8, 15)))
		if !b.IsConst() {
			// remembered so that DecodeString of these two characters is the byte itself (exact identity)
			if in.hexOrigin == nil {
				in.hexOrigin = map[*Term]hexOrig{}
			}
			in.hexOrigin[hi] = hexOrig{b, true}
			in.hexOrigin[lo] = hexOrig{b, false}
		}
		out = append(out, hi, lo)
	}
	s := Str{B: out}
	if s.IsConcrete() {
		return Str{S: s.Concrete()}
	}
	if len(out) == 0 {
		return Str{}
	}
	return s
}

// formatVerb formats one operand. Symbolic numbers give an opaque string.
func (in *Interp) formatVerb(verb byte, flags string, arg Value) Str {
	itf, ok := arg.(Iface)
	if !ok {
		return opaqueStr()
	}
	if itf.T == nil {
		return Str{S: "<nil>"}
	}
	v := itf.V
	// error / Stringer
	if verb == 's' || verb == 'v' || verb == 'w' || verb == 'q' {
		if o, ok := v.(*Opaque); ok && o != nil && o.Kind == "error" {
			if o.Cause != nil {
				return opaqueStr()
			}
			return o.Msg
		}
		if f := in.lookupMethodByName(itf.T, "Error"); f != nil && !types.IsInterface(itf.T) {
			if r, ok := in.callSSA(in.curFrame, f, []Value{v}, nil).(Str); ok {
				return r
			}
		}
		if f := in.lookupMethodByName(itf.T, "String"); f != nil && !types.IsInterface(itf.T) && f.Signature.Params().Len() == 0 {
			if p, isPtr := v.(*Value); isPtr && p == nil {
				return Str{S: "<nil>"}
			}
			if r, ok := in.callSSA(in.curFrame, f, []Value{v}, nil).(Str); ok {
				return r
			}
		}
	}
	switch x := v.(type) {
	case Str:
		switch verb {
		case 's', 'v':
			return x
		case 'q':
			if x.IsConcrete() {
				return Str{S: fmt.Sprintf("%q", x.Concrete())}
			}
			return opaqueStr()
		case 'x':
			return in.hexOfBytes(in.strBytes(x))
		}
	case *Term:
		if x.S.K == KBool {
			if x.IsConst() {
				return Str{S: fmt.Sprintf("%"+flags+string(verb), x.C == 1)}
			}
			return opaqueStr()
		}
		if x.S.K == KInt && x.IsConst() {
			if isSigned(itf.T) {
				return Str{S: fmt.Sprintf("%"+flags+string(verb), termInt64(x, true))}
			}
			return Str{S: fmt.Sprintf("%"+flags+string(verb), uint64(termInt64(x, false)))}
		}
		if x.S.K == KBV && x.IsConst() && x.S.W <= 64 {
			signed := isSigned(itf.T)
			var gv interface{}
			if signed {
				gv = toSigned(x.C, x.S.W)
			} else {
				switch x.S.W {
				case 8:
					gv = uint8(x.C)
				default:
					gv = x.C
				}
			}
			return Str{S: fmt.Sprintf("%"+flags+string(verb), gv)}
		}
		// symbolic wide integer with %02x / %.2x: two hex digits when the value is known to fit a byte
		if (x.S.K == KBV && x.S.W > 8 || x.S.K == KInt) && verb == 'x' && (flags == "02" || flags == ".2") {
			var fits *Term
			var lowb *Term
			if x.S.K == KInt {
				fits = in.tb.And(in.tb.IBin(OILe, in.tb.IntConst(big.NewInt(0)), x), in.tb.IBin(OILe, x, in.tb.IntConst(big.NewInt(255))))
				lowb = in.tb.Int2BV(x, 8)
			} else {
				fits = in.tb.Cmp(OUle, x, in.tb.BVConst(int(x.S.W), 255))
				lowb = in.tb.Extract(x, 7, 0)
			}
			if in.decide(in.curFrame, nil, fits) {
				return in.hexOfBytes([]Value{lowb})
			}
			return opaqueStr()
		}
		// symbolic byte with %02x / %.2x: two hex digits
		if x.S.K == KBV && x.S.W == 8 && verb == 'x' && (flags == "02" || flags == ".2") {
			return in.hexOfBytes([]Value{x})
		}
		return opaqueStr()
	case Slice:
		if verb == 'x' && (flags == "" || flags == "02" || flags == ".2") {
			if bt, ok := itf.T.Underlying().(*types.Slice); ok {
				if b, ok := bt.Elem().Underlying().(*types.Basic); ok && b.Kind() == types.Uint8 {
					return in.hexOfBytes(x.A)
				}
			}
		}
		return opaqueStr()
	case *Value:
		// pointer to something with no String method
		return opaqueStr()
	}
	return opaqueStr()
}

func (in *Interp) lookupMethodByName(t types.Type, name string) *ssaFunc {
	ms := in.prog.MethodSets.MethodSet(t)
	for i := 0; i < ms.Len(); i++ {
		sel := ms.At(i)
		if sel.Obj().Name() == name {
			return in.prog.MethodValue(sel)
		}
	}
	return nil
}

var _ = big.NewInt

func init() {
	intrinsics["regexp.MustCompile"] = func(in *Interp, fr *frame, args []Value) Value {
		return &Opaque{Kind: "regexp", Data: concStr(args[0])}
	}
}

// hash.Hash objects (ripemd160.New): opaque accumulator; Sum applies the hash UF.
type hasherState struct {
	alg    string
	n      int
	data   []Value
	shared bool // created by a package initialiser: a package-level hasher, its state is shared by all executions
}

func init() {
	intrinsics["golang.org/x/crypto/ripemd160.New"] = func(in *Interp, fr *frame, args []Value) Value {
		return Iface{T: opaqueErrType, V: &Opaque{Kind: "hasher", Data: &hasherState{alg: "ripemd160", n: 20, shared: in.inInit}}}
	}
}

func (in *Interp) hasherMethod(o *Opaque, name string, args []Value) Value {
	h := o.Data.(*hasherState)
	if h.shared && !in.inInit && (name == "Write" || name == "Reset") {
		in.sharedWrites = append(in.sharedWrites, "state of a package-level hash.Hash ("+h.alg+")")
	}
	switch name {
	case "Write":
		b := args[1].(Slice).A
		h.data = append(h.data, b...)
		return Tuple{in.mkInt(int64(len(b))), Iface{}}
	case "Sum":
		// Sum(b) appends to b: in place when b has the capacity (the caller's storage is written)
		prefix := args[1].(Slice).A
		dig := in.hashUF(h.alg, h.n, h.data)
		if prefix != nil && cap(prefix)-len(prefix) >= len(dig) {
			out := prefix[:len(prefix)+len(dig)]
			copy(out[len(prefix):], dig)
			return Slice{A: out}
		}
		out := append(append([]Value{}, prefix...), dig...)
		return Slice{A: out}
	case "Reset":
		h.data = nil
		return nil
	case "Size":
		return in.mkInt(int64(h.n))
	}
	panic(engineAbort{"hasher method " + name})
}

func init() {
	intrinsics["internal/bytealg.MakeNoZero"] = func(in *Interp, fr *frame, args []Value) Value {
		n := in.concreteInt(args[0], true, "MakeNoZero")
		a := make([]Value, n)
		for i := range a {
			a[i] = in.tb.BVConst(8, 0)
		}
		return Slice{A: a}
	}
	// strings.Builder: buf is field 1 of the struct
	bufOf := func(p Value) *Value {
		st := (*(p.(*Value))).(Struct)
		return &st[1]
	}
	appendBytes := func(in *Interp, p Value, bs []Value) {
		b := bufOf(p)
		cur := (*b).(Slice)
		na := make([]Value, 0, len(cur.A)+len(bs))
		na = append(na, cur.A...)
		na = append(na, bs...)
		*b = Slice{A: na}
	}
	intrinsics["(*strings.Builder).WriteString"] = func(in *Interp, fr *frame, args []Value) Value {
		s := args[1].(Str)
		if s.Opaque {
			// the builder's content becomes unmodelled: remember it and make String() opaque
			if in.opaqueBuilders == nil {
				in.opaqueBuilders = map[*Value]bool{}
			}
			in.opaqueBuilders[bufOf(args[0])] = true
			return Tuple{in.mkInt(0), Iface{}}
		}
		appendBytes(in, args[0], in.strBytes(s))
		return Tuple{in.mkInt(int64(s.Len())), Iface{}}
	}
	intrinsics["(*strings.Builder).WriteByte"] = func(in *Interp, fr *frame, args []Value) Value {
		appendBytes(in, args[0], []Value{args[1]})
		return Iface{}
	}
	intrinsics["(*strings.Builder).WriteRune"] = func(in *Interp, fr *frame, args []Value) Value {
		r := args[1].(*Term)
		if !r.IsConst() {
			panic(engineAbort{"strings.Builder.WriteRune of symbolic rune"})
		}
		s := string(rune(toSigned(r.C, 32)))
		appendBytes(in, args[0], in.strBytes(Str{S: s}))
		return Tuple{in.mkInt(int64(len(s))), Iface{}}
	}
	intrinsics["(*strings.Builder).Write"] = func(in *Interp, fr *frame, args []Value) Value {
		bs := args[1].(Slice).A
		appendBytes(in, args[0], bs)
		return Tuple{in.mkInt(int64(len(bs))), Iface{}}
	}
	intrinsics["(*strings.Builder).String"] = func(in *Interp, fr *frame, args []Value) Value {
		if in.opaqueBuilders[bufOf(args[0])] {
			return opaqueStr()
		}
		cur := (*bufOf(args[0])).(Slice)
		bs := make([]*Term, len(cur.A))
		for i, c := range cur.A {
			bs[i] = c.(*Term)
		}
		s := Str{B: bs}
		if s.IsConcrete() {
			return Str{S: s.Concrete()}
		}
		return s
	}
	intrinsics["(*strings.Builder).Len"] = func(in *Interp, fr *frame, args []Value) Value {
		return in.mkInt(int64(len((*bufOf(args[0])).(Slice).A)))
	}
	intrinsics["(*strings.Builder).Grow"] = func(in *Interp, fr *frame, args []Value) Value { return nil }
	intrinsics["(*strings.Builder).Reset"] = func(in *Interp, fr *frame, args []Value) Value {
		*bufOf(args[0]) = Slice{}
		return nil
	}
}

func init() {
	intrinsics["bytes.Contains"] = func(in *Interp, fr *frame, args []Value) Value {
		tb := in.tb
		s, sub := args[0].(Slice).A, args[1].(Slice).A
		if len(sub) == 0 {
			return tb.True
		}
		res := tb.False
		for i := 0; i+len(sub) <= len(s); i++ {
			m := tb.True
			for j := range sub {
				m = tb.And(m, tb.Eq(s[i+j].(*Term), sub[j].(*Term)))
			}
			res = tb.Or(res, m)
		}
		return res
	}
	intrinsics["bytes.IndexByte"] = func(in *Interp, fr *frame, args []Value) Value {
		tb := in.tb
		s, c := args[0].(Slice).A, args[1].(*Term)
		res := in.mkInt(-1)
		for i := len(s) - 1; i >= 0; i-- {
			res = tb.Ite(tb.Eq(s[i].(*Term), c), in.mkInt(int64(i)), res)
		}
		return res
	}
	intrinsics["bytes.Trim"] = func(in *Interp, fr *frame, args []Value) Value {
		tb := in.tb
		s := args[0].(Slice)
		cut := concStr(args[1])
		inCut := func(b *Term) *Term {
			r := tb.False
			for i := 0; i < len(cut); i++ {
				r = tb.Or(r, tb.Eq(b, tb.BVConst(8, uint64(cut[i]))))
			}
			return r
		}
		lo, hi := 0, len(s.A)
		for lo < hi && in.decide(fr, nil, inCut(s.A[lo].(*Term))) {
			lo++
		}
		for hi > lo && in.decide(fr, nil, inCut(s.A[hi-1].(*Term))) {
			hi--
		}
		if lo == hi {
			return Slice{}
		}
		return Slice{A: s.A[lo:hi]}
	}
	intrinsics["strings.HasPrefix"] = func(in *Interp, fr *frame, args []Value) Value {
		s, p := args[0].(Str), args[1].(Str)
		if s.Opaque || p.Opaque {
			panic(engineAbort{"strings.HasPrefix on opaque string"})
		}
		if s.Len() < p.Len() {
			return in.tb.False
		}
		sb, pb := in.strBytes(s), in.strBytes(p)
		r := in.tb.True
		for i := range pb {
			r = in.tb.And(r, in.tb.Eq(sb[i].(*Term), pb[i].(*Term)))
		}
		return r
	}
	intrinsics["strings.Split"] = func(in *Interp, fr *frame, args []Value) Value {
		s := args[0].(Str)
		sep := concStr(args[1])
		if s.Opaque {
			panic(engineAbort{"strings.Split of opaque string"})
		}
		if len(sep) != 1 {
			if s.IsConcrete() {
				var out []Value
				for _, p := range strings.Split(s.Concrete(), sep) {
					out = append(out, Str{S: p})
				}
				return Slice{A: out}
			}
			panic(engineAbort{"strings.Split with multi-byte separator on symbolic string"})
		}
		bs := in.strBytes(s)
		var out []Value
		start := 0
		mk := func(a, b int) Str {
			ts := make([]*Term, b-a)
			for i := a; i < b; i++ {
				ts[i-a] = bs[i].(*Term)
			}
			r := Str{B: ts}
			if r.IsConcrete() {
				return Str{S: r.Concrete()}
			}
			return r
		}
		// one query first: can any symbolic character be the separator at all?
		anySep := in.tb.False
		for i := range bs {
			if t := bs[i].(*Term); !t.IsConst() {
				anySep = in.tb.Or(anySep, in.tb.Eq(t, in.tb.BVConst(8, uint64(sep[0]))))
			}
		}
		noSymSep := anySep == in.tb.False || !in.decide(fr, nil, anySep)
		for i := range bs {
			if t := bs[i].(*Term); !t.IsConst() && noSymSep {
				continue
			}
			if in.decide(fr, nil, in.tb.Eq(bs[i].(*Term), in.tb.BVConst(8, uint64(sep[0])))) {
				out = append(out, mk(start, i))
				start = i + 1
			}
		}
		out = append(out, mk(start, len(bs)))
		return Slice{A: out}
	}
}

// ---- base58 (go-bk): Encode is an opaque injective function; Decode is its exact inverse on
// encoded strings and the real algorithm on concrete strings.
const b58Alphabet = "123456789ABCDEFGHJKLMNPQRSTUVWXYZabcdefghijkmnopqrstuvwxyz"

func b58DecodeConcrete(s string) []byte {
	// mirrors go-bk base58.Decode: invalid characters yield an empty result
	n := new(big.Int)
	radix := big.NewInt(58)
	zeros := 0
	lead := true
	for i := 0; i < len(s); i++ {
		idx := strings.IndexByte(b58Alphabet, s[i])
		if idx < 0 {
			return []byte{}
		}
		if lead && s[i] == '1' {
			zeros++
		} else {
			lead = false
		}
		n.Mul(n, radix)
		n.Add(n, big.NewInt(int64(idx)))
	}
	body := n.Bytes()
	return append(make([]byte, zeros), body...)
}

func b58EncodeConcrete(b []byte) string {
	n := new(big.Int).SetBytes(b)
	radix := big.NewInt(58)
	var out []byte
	mod := new(big.Int)
	for n.Sign() > 0 {
		n.DivMod(n, radix, mod)
		out = append(out, b58Alphabet[mod.Int64()])
	}
	for _, x := range b {
		if x != 0 {
			break
		}
		out = append(out, '1')
	}
	for i, j := 0, len(out)-1; i < j; i, j = i+1, j-1 {
		out[i], out[j] = out[j], out[i]
	}
	return string(out)
}

func init() {
	intrinsics["github.com/libsv/go-bk/base58.Encode"] = func(in *Interp, fr *frame, args []Value) Value {
		cells := args[0].(Slice).A
		conc := true
		raw := make([]byte, len(cells))
		for i, c := range cells {
			t := c.(*Term)
			if !t.IsConst() {
				conc = false
				break
			}
			raw[i] = byte(t.C)
		}
		if conc {
			return Str{S: b58EncodeConcrete(raw)}
		}
		in.usedStubs["base58: Encode opaque+injective, Decode its exact inverse (real algorithm on concrete strings)"] = true
		return Str{S: "<base58>", Opaque: true, B58: append([]Value{}, cells...)}
	}
	intrinsics["github.com/libsv/go-bk/base58.Decode"] = func(in *Interp, fr *frame, args []Value) Value {
		s := args[0].(Str)
		if s.B58 != nil {
			return Slice{A: append([]Value{}, s.B58...)}
		}
		if s.IsConcrete() {
			raw := b58DecodeConcrete(s.Concrete())
			out := make([]Value, len(raw))
			for i, b := range raw {
				out[i] = in.tb.BVConst(8, uint64(b))
			}
			return Slice{A: out}
		}
		panic(engineAbort{"base58.Decode of a symbolic string that is not a base58.Encode result"})
	}
}

// ---- encoding/hex: compact model (three range tests per character instead of the
// 256-entry table lookup of the real implementation); validated natively by replay.
func init() {
	intrinsics["encoding/hex.EncodeToString"] = func(in *Interp, fr *frame, args []Value) Value {
		return in.hexOfBytes(args[0].(Slice).A)
	}
	intrinsics["encoding/hex.DecodeString"] = func(in *Interp, fr *frame, args []Value) Value {
		tb := in.tb
		s := args[0].(Str)
		if s.Opaque {
			panic(engineAbort{"hex.DecodeString of opaque string"})
		}
		cs := in.strBytes(s)
		errLen := in.globalErr(fr, "encoding/hex", "ErrLength")
		nib := func(c *Term) (*Term, *Term) { // value, valid
			dig := tb.And(tb.Cmp(OUle, tb.BVConst(8, '0'), c), tb.Cmp(OUle, c, tb.BVConst(8, '9')))
			lo := tb.And(tb.Cmp(OUle, tb.BVConst(8, 'a'), c), tb.Cmp(OUle, c, tb.BVConst(8, 'f')))
			up := tb.And(tb.Cmp(OUle, tb.BVConst(8, 'A'), c), tb.Cmp(OUle, c, tb.BVConst(8, 'F')))
			v := tb.Ite(dig, tb.Bin(OSub, c, tb.BVConst(8, '0')), tb.Ite(lo, tb.Bin(OSub, c, tb.BVConst(8, 'a'-10)), tb.Bin(OSub, c, tb.BVConst(8, 'A'-10))))
			return v, tb.Or(dig, tb.Or(lo, up))
		}
		out := []Value{}
		allValid := tb.True
		for i := 0; i+1 < len(cs); i += 2 {
			if oh, ok := in.hexOrigin[cs[i].(*Term)]; ok && oh.hi {
				if ol, ok := in.hexOrigin[cs[i+1].(*Term)]; ok && !ol.hi && ol.b == oh.b {
					out = append(out, oh.b) // the two digits EncodeToString produced for this byte
					continue
				}
			}
			h, hv := nib(cs[i].(*Term))
			l, lv := nib(cs[i+1].(*Term))
			allValid = tb.And(allValid, tb.And(hv, lv))
			out = append(out, tb.Bin(OBor, tb.Bin(OShl, h, tb.BVConst(8, 4)), l))
		}
		// one query for "every character is a hex digit" (the position of the first bad one is not modelled)
		if !in.decide(fr, nil, allValid) {
			return Tuple{Slice{A: []Value{}}, in.newError(Str{S: "encoding/hex: invalid byte"}, nil)}
		}
		if len(cs)%2 == 1 {
			// the real function reports InvalidByteError for a bad last char, else ErrLength
			_, v := nib(cs[len(cs)-1].(*Term))
			if !in.decide(fr, nil, v) {
				return Tuple{Slice{A: out}, in.newError(Str{S: "encoding/hex: invalid byte"}, nil)}
			}
			return Tuple{Slice{A: out}, errLen}
		}
		return Tuple{Slice{A: out}, Iface{}}
	}
}

// globalErr loads an error-typed package-level variable (e.g. encoding/hex.ErrLength).
func (in *Interp) globalErr(fr *frame, pkgPath, name string) Value {
	for _, p := range in.prog.AllPackages() {
		if p.Pkg.Path() == pkgPath {
			if g, ok := p.Members[name].(*ssa.Global); ok {
				return in.load(fr, fr.get(g))
			}
		}
	}
	panic(engineAbort{"global " + pkgPath + "." + name + " not found"})
}

// ---- math: rounding functions on float64
func init() {
	rnd := func(mode string, trunc bool) intrinsic {
		return func(in *Interp, fr *frame, args []Value) Value {
			x := args[0].(*Term)
			if x.S.K == KReal {
				if mode != "RNA" && mode != "RTZ" {
					panic(engineAbort{"real-abstraction: unsupported rounding function"})
				}
				return in.tb.FP("to_real", SReal, in.realToInt(x, trunc))
			}
			if x.IsConst() {
				f := math.Float64frombits(x.C)
				switch mode {
				case "RNA":
					return in.fpConst(math.Round(f))
				case "RTZ":
					return in.fpConst(math.Trunc(f))
				case "RTN":
					return in.fpConst(math.Floor(f))
				case "RTP":
					return in.fpConst(math.Ceil(f))
				}
			}
			return in.tb.FP("fp.roundToIntegral "+mode, SFP, x)
		}
	}
	intrinsics["math.Round"] = rnd("RNA", false)
	intrinsics["math.Trunc"] = rnd("RTZ", true)
	intrinsics["math.Floor"] = rnd("RTN", true)
	intrinsics["math.Ceil"] = rnd("RTP", true)
}

// ---- time: an abstract instant (only ordering is modelled)
func init() {
	intrinsics["time.Now"] = func(in *Interp, fr *frame, args []Value) Value {
		t := in.zero(fr.fn.Signature.Results().At(0).Type()).(Struct)
		t[0] = in.tb.Zext(in.freshSym("now", BV(62)), 64)
		if in.intMode {
			t[0] = in.fromBV64(t[0].(*Term), false)
		}
		return t
	}
	intrinsics["(time.Time).UTC"] = func(in *Interp, fr *frame, args []Value) Value { return args[0] }
	intrinsics["(time.Time).Before"] = func(in *Interp, fr *frame, args []Value) Value {
		a, b := args[0].(Struct)[0].(*Term), args[1].(Struct)[0].(*Term)
		if a.S.K == KInt {
			return in.tb.IBin(OILt, a, b)
		}
		return in.tb.Cmp(OUlt, a, b)
	}
}

type hashConcRec struct {
	alg    string
	in     []byte
	digest []byte
}

func init() {
	ident := func(in *Interp, fr *frame, args []Value) Value { return args[0] }
	intrinsics["strings.Clone"] = ident
	intrinsics["internal/stringslite.Clone"] = ident
	intrinsics["strconv.cloneString"] = ident
}
