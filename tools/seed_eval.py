#!/usr/bin/env python3
"""Confirm a seeded change and run the registered check against it.
usage: seed_eval.py <prop> <seed_dir> <name> [--check-props C01,C09]
 - confirms in a scratch worktree: builds, existing tests pass with the patch, demo fails with / passes without
 - applies the patch to /repo, runs ./check <prop> (quick), reverts
 - stores everything under /verif/seeded/<name>/
"""
import sys, os, subprocess, json, re, shutil, time
HOME_DIR = os.environ.get("VERIF_HOME") or os.path.dirname(os.path.dirname(os.path.abspath(__file__)))  # the /verif checkout whose ./check is run (a `vp run` snapshot uses its own)
ENV = dict(os.environ, GOFLAGS="-mod=mod", GOPROXY="off", GOSUMDB="off", GOTOOLCHAIN="local")
def sh(cmd, cwd=None, timeout=3600):
    r = subprocess.run(cmd, shell=True, cwd=cwd, env=ENV, stdout=subprocess.PIPE, stderr=subprocess.STDOUT, text=True, timeout=timeout)
    return r.returncode, r.stdout
PKGDIR = {"bt": ".", "bt_test": ".", "bscript": "bscript", "bscript_test": "bscript", "interpreter": "bscript/interpreter", "interpreter_test": "bscript/interpreter",
          "ord": "ord", "ord_test": "ord", "unlocker": "unlocker", "unlocker_test": "unlocker", "sighash": "sighash", "debug": "bscript/interpreter/debug", "debug_test": "bscript/interpreter/debug", "errs": "bscript/interpreter/errs"}
def main():
    prop, sdir, name = sys.argv[1:4]
    props = [prop]
    if "--check-props" in sys.argv:
        props = sys.argv[sys.argv.index("--check-props") + 1].split(",")
    patch = os.path.join(sdir, "patch.diff")
    demo = os.path.join(sdir, "demo_test.go")
    src = open(demo).read()
    pkg = re.search(r"^package (\w+)", src, re.M).group(1)
    pdir = PKGDIR[pkg]
    test = re.search(r"func (TestSeedDemo\w*)\(", src).group(1)
    wt = "/tmp/seedcheck-%d" % os.getpid()
    sh("git -C /repo worktree add -q --detach %s HEAD" % wt)
    meta = {"property": prop, "name": name, "demo_package_dir": pdir, "demo_test": test}
    try:
        rc, out = sh("git apply %s" % patch, cwd=wt)
        meta["patch_applies"] = rc == 0
        rc, out = sh("go build ./... && go test -vet=off -count=1 ./...", cwd=wt)
        meta["existing_tests_pass_with_patch"] = rc == 0
        if rc != 0:
            meta["existing_tests_output"] = out[-1500:]
        shutil.copy(demo, os.path.join(wt, pdir, "zz_seed_demo_test.go"))
        rc, out = sh("go test -vet=off -count=1 -run '^%s$' ./%s" % (test, pdir), cwd=wt)
        meta["demo_fails_with_patch"] = rc != 0
        sh("git apply -R %s" % patch, cwd=wt)
        rc, out = sh("go test -vet=off -count=1 -run '^%s$' ./%s" % (test, pdir), cwd=wt)
        meta["demo_passes_without_patch"] = rc == 0
    finally:
        sh("git -C /repo worktree remove --force %s" % wt)
    confirmed = all(meta.get(k) for k in ("patch_applies", "existing_tests_pass_with_patch", "demo_fails_with_patch", "demo_passes_without_patch"))
    meta["confirmed"] = confirmed
    meta["checks"] = {}
    scratch = "--scratch" in sys.argv  # run the checks against a scratch worktree instead of /repo (when /repo is in use)
    if confirmed and "--no-check" not in sys.argv:
        if scratch:
            repo = "/tmp/seedrepo-%d" % os.getpid()
            sh("git -C /repo worktree add -q --detach %s HEAD" % repo)
        else:
            repo = "/repo"
            rc, out = sh("git -C /repo status --porcelain")
            assert out.strip() == "", "/repo not clean: " + out
        rc, out = sh("git -C %s apply %s" % (repo, patch))
        ENV["VERIF_REPO"] = repo
        ENV["VERIF_EVIDENCE_DIR"] = os.path.join(HOME_DIR, "work/seed_evidence")
        ENV["VERIF_REPLAY_DIR"] = os.path.join(HOME_DIR, "work/seed_replays")
        try:
            for p in props:
                t0 = time.time()
                rc, out = sh("./check %s --tier quick" % p, cwd=HOME_DIR, timeout=3600)
                viol = [l for l in out.splitlines() if l.startswith("VIOLATION")]
                meta["checks"][p] = {"exit": rc, "detected": rc == 1 and bool(viol), "violation_lines": [v[:300] for v in viol[:5]], "wall_s": round(time.time() - t0, 1),
                                     "other": [l[:300] for l in out.splitlines() if l.startswith(("ENGINE-MISMATCH", "PROBLEM"))][:5]}
        finally:
            if scratch:
                sh("git -C /repo worktree remove --force %s" % repo)
            else:
                sh("git -C /repo checkout -- .")
        meta["checked_against"] = "scratch worktree of /repo HEAD with the patch applied (VERIF_REPO)" if scratch else "/repo with the patch applied (git -C /repo apply), undone afterwards"
    dst = os.path.join("/verif/seeded", name)
    os.makedirs(dst, exist_ok=True)
    for f in ("patch.diff", "demo_test.go", "README.md"):
        if os.path.exists(os.path.join(sdir, f)) and os.path.abspath(sdir) != os.path.abspath(dst):
            shutil.copy(os.path.join(sdir, f), os.path.join(dst, f))
    if os.path.exists(os.path.join(sdir, "README.md")):
        meta["needs_to_manifest"] = open(os.path.join(sdir, "README.md")).read()[:1500]
    meta["ran"] = "scratch worktree: go build, go test ./... with patch, demo with/without patch; then `git -C /repo apply`, ./check <prop> --tier quick, `git -C /repo checkout -- .`"
    json.dump(meta, open(os.path.join(dst, "meta.json"), "w"), indent=1)
    print(json.dumps({k: meta[k] for k in ("name", "confirmed", "checks")}, indent=1))
main()
