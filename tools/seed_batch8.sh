#!/bin/bash
cd /verif
run() { echo "== $*"; python3 tools/seed_eval.py "$@" --scratch 2>&1 | grep -v '"needs_to_manifest"' | tail -22; }
for id in C01 C09 C13 C14 C10 C11 C16 C19 C06; do for v in e f; do run $id /tmp/wt5/$id/SEED/$v $id-$v; done; done
run C07 /tmp/wt5/C07/SEED/e C07-e --check-props C07,C02
run C07 /tmp/wt5/C07/SEED/f C07-f
for id in C05 C20; do for v in e f; do [ -f /tmp/wt5/$id/SEED/$v/patch.diff ] && run $id /tmp/wt5/$id/SEED/$v $id-$v; done; done
