#!/bin/bash
# runs the thorough tier of the given properties (default: all claimed) against $VERIF_REPO or /repo, sequentially
cd "$(dirname "$0")/.."
ids="$@"
[ -z "$ids" ] && ids=$(python3 -c "import json; print(' '.join(c['property_id'] for c in json.load(open('MANIFEST.json'))['checks']))")
mkdir -p work
for id in $ids; do
  s=$(date +%s); timeout ${THOROUGH_TIMEOUT:-2700} ./check $id --tier thorough > work/thorough_$id.log 2>&1; rc=$?; e=$(date +%s)
  echo "$id rc=$rc $((e-s))s $(grep '^check ' work/thorough_$id.log | tail -1)"
  grep -h "status=\|INCOMPLETE\|PROBLEM" work/thorough_$id.log | cut -c1-220 | sed 's/^/    /'
done
