package bt

import (
	"os"
	"strconv"
	"strings"
	"sync"
	"testing"
)

// TestVerifRaceConfirm runs the two methods of a solver-reported racing pair concurrently on one
// shared object (confirmation under the race detector; the deciding step is the schedule query).
func TestVerifRaceConfirm(t *testing.T) {
	spec := os.Getenv("VERIF_RACE") // e.g. FeeQuote:5:6
	if spec == "" {
		t.Skip("no VERIF_RACE")
	}
	parts := strings.Split(spec, ":")
	m1, _ := strconv.Atoi(parts[1])
	m2, _ := strconv.Atoi(parts[2])
	body, _ := NewFeeQuote().MarshalJSON()
	for it := 0; it < 300; it++ {
		var wg sync.WaitGroup
		wg.Add(2)
		if parts[0] == "FeeQuote" {
			fq := NewFeeQuote()
			go func() { defer wg.Done(); vcallFeeQuote(fq, m1, body) }()
			go func() { defer wg.Done(); vcallFeeQuote(fq, m2, body) }()
		} else {
			f := NewFeeQuotes("a")
			vC18Held, _ = f.Quote("a")
			go func() { defer wg.Done(); vcallFeeQuotes(f, m1) }()
			go func() { defer wg.Done(); vcallFeeQuotes(f, m2) }()
		}
		wg.Wait()
	}
}
