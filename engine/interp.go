package main

// Symbolic interpreter for go/ssa, one path at a time. Structure follows
// golang.org/x/tools/go/ssa/interp; scalars are SMT terms.

import (
	"fmt"
	"go/constant"
	"go/token"
	"go/types"
	"math/big"
	"strings"

	"golang.org/x/tools/go/ssa"
)

// control-flow exceptions (Go panics inside the engine)
type targetPanic struct{ v Value } // the program panicked
type pathEnd struct{ reason string }
type engineAbort struct{ msg string } // fail closed: unsupported construct, solver failure
type boundHit struct{ what string }   // unwinding / step bound exceeded on a feasible path

type deferred struct {
	fn    Value
	args  []Value
	call  *ssa.CallCommon
	instr *ssa.Defer
	tail  *deferred
}

type frame struct {
	in        *Interp
	caller    *frame
	fn        *ssa.Function
	block     *ssa.BasicBlock
	prevBlock *ssa.BasicBlock
	env       map[ssa.Value]Value
	locals    []Value
	defers    *deferred
	result    Value
	panicking bool
	panic     interface{}
	symCount  map[ssa.Instruction]int
	phitemps  []Value
}

func (fr *frame) get(key ssa.Value) Value {
	switch key := key.(type) {
	case nil:
		return nil
	case *ssa.Function, *ssa.Builtin:
		return key
	case *ssa.Const:
		return fr.in.constValue(key)
	case *ssa.Global:
		if r, ok := fr.in.globals[key]; ok {
			return r
		}
		if r, ok := fr.in.baseGlobals[key]; ok {
			return r
		}
		if key.Pkg != nil && !fr.in.initialised[key.Pkg] && !fr.in.inInit {
			if !fr.in.globalOK(key) {
				panic(engineAbort{fmt.Sprintf("read of global %s of package whose init was not run", key)})
			}
		}
		cell := new(Value)
		*cell = fr.in.zero(deref(key.Type()))
		fr.in.globals[key] = cell
		return cell
	}
	if r, ok := fr.env[key]; ok {
		return r
	}
	panic(engineAbort{fmt.Sprintf("get: no value for %T: %v in %s", key, key.Name(), fr.fn)})
}

func (in *Interp) constValue(c *ssa.Const) Value {
	if c.Value == nil {
		return in.zero(c.Type())
	}
	t := c.Type().Underlying()
	if b, ok := t.(*types.Basic); ok {
		switch {
		case b.Info()&types.IsBoolean != 0:
			return in.tb.Bool(constant.BoolVal(c.Value))
		case b.Info()&types.IsString != 0:
			if c.Value.Kind() == constant.String {
				return Str{S: constant.StringVal(c.Value)}
			}
			panic(engineAbort{"non-string constant of string type"})
		case b.Info()&types.IsInteger != 0:
			s, _, _ := basicSort(b)
			v := constant.ToInt(c.Value)
			if in.wideInt(b) {
				bi, ok := constant.Val(v).(*big.Int)
				if !ok {
					i64, exact := constant.Int64Val(v)
					if !exact {
						u, _ := constant.Uint64Val(v)
						return in.tb.IntConst(new(big.Int).SetUint64(u))
					}
					return in.tb.IntConst(big.NewInt(i64))
				}
				return in.tb.IntConst(bi)
			}
			bi, ok := constant.Val(v).(*big.Int)
			if !ok {
				i64, _ := constant.Int64Val(v)
				if constant.Sign(v) >= 0 {
					u, _ := constant.Uint64Val(v)
					return in.tb.BVConst(int(s.W), u)
				}
				return in.tb.BVConst(int(s.W), uint64(i64))
			}
			return in.tb.BVBig(int(s.W), bi)
		case b.Info()&types.IsFloat != 0:
			f, _ := constant.Float64Val(c.Value)
			return in.fpConst(f)
		}
	}
	panic(engineAbort{fmt.Sprintf("unsupported constant %v of type %v", c, c.Type())})
}

func deref(t types.Type) types.Type {
	if p, ok := t.Underlying().(*types.Pointer); ok {
		return p.Elem()
	}
	panic(fmt.Sprintf("deref of non-pointer %v", t))
}

func (fr *frame) fname() string {
	return fr.fn.String()
}

// fault raises a runtime-fault obligation: cond must hold.
func (fr *frame) fault(cond *Term, kind string) {
	fr.in.obligation(cond, "fault:"+kind+"@"+fr.fname(), true)
}

func (fr *frame) nilCheck(p Value, what string) {
	switch p := p.(type) {
	case *Value:
		if p == nil {
			fr.fault(fr.in.tb.False, "nil-deref")
		}
	case SymRef:
	default:
		panic(engineAbort{fmt.Sprintf("nilCheck(%s): not a pointer: %T in %s", what, p, fr.fn)})
	}
}

func (in *Interp) load(fr *frame, addr Value) Value {
	switch p := addr.(type) {
	case *Value:
		if p == nil {
			fr.fault(in.tb.False, "nil-deref")
		}
		if in.race != nil {
			in.curFn = fr.fn
			in.raceAccessCell(p, false)
		}
		return copyVal(*p)
	case SymRef:
		return in.symLoad(p)
	}
	panic(engineAbort{fmt.Sprintf("load from %T", addr)})
}

func (in *Interp) symLoad(p SymRef) Value {
	// ite chain over cells; cells must be scalar terms
	var res *Term
	for i := len(p.Base) - 1; i >= 0; i-- {
		c, ok := p.Base[i].(*Term)
		if !ok {
			panic(engineAbort{"symbolic index into non-scalar cells"})
		}
		if res == nil {
			res = c
			continue
		}
		res = in.tb.Ite(in.tb.Eq(p.Idx, in.tb.BVConst(64, uint64(i))), c, res)
	}
	if res == nil {
		panic(pathEnd{"symbolic index into empty slice"})
	}
	return res
}

func (in *Interp) store(fr *frame, addr Value, v Value) {
	switch p := addr.(type) {
	case *Value:
		if p == nil {
			fr.fault(in.tb.False, "nil-deref")
		}
		in.storeCell(fr, p, v)
	case SymRef:
		nv, ok := v.(*Term)
		if !ok {
			panic(engineAbort{"symbolic-index store of non-scalar"})
		}
		for i := range p.Base {
			if in.frozen != nil && in.frozen[&p.Base[i]] {
				in.frozenWrite(fr)
			}
			old := p.Base[i].(*Term)
			p.Base[i] = in.tb.Ite(in.tb.Eq(p.Idx, in.tb.BVConst(64, uint64(i))), nv, old)
		}
	default:
		panic(engineAbort{fmt.Sprintf("store to %T", addr)})
	}
}

func (in *Interp) frozenWrite(fr *frame) {
	in.obligation(in.tb.False, "frozen-write@"+fr.fname(), false)
}

func (in *Interp) storeCell(fr *frame, p *Value, v Value) {
	switch nv := v.(type) {
	case Struct:
		if dst, ok := (*p).(Struct); ok && len(dst) == len(nv) {
			for i := range nv {
				in.storeCell(fr, &dst[i], nv[i])
			}
			return
		}
		*p = copyVal(nv)
		return
	case Array:
		if dst, ok := (*p).(Array); ok && len(dst) == len(nv) {
			for i := range nv {
				in.storeCell(fr, &dst[i], nv[i])
			}
			return
		}
		*p = copyVal(nv)
		return
	}
	if in.frozen != nil && in.frozen[p] {
		in.frozenWrite(fr)
	}
	if in.globalCells != nil && in.globalCells[p] {
		in.sharedWrites = append(in.sharedWrites, fr.fname())
	}
	if in.race != nil {
		in.curFn = fr.fn
		in.raceAccessCell(p, true)
	}
	*p = v
}

// concreteInt returns the concrete int64 of a scalar, concretising by forking if symbolic.
func (in *Interp) concreteInt(v Value, signed bool, what string) int64 {
	t := v.(*Term)
	if t.S.K == KInt {
		if t.IsConst() {
			return termInt64(t, signed)
		}
		return int64(in.chooseValue(in.tb.Int2BV(t, 64), what))
	}
	if !t.IsConst() {
		u := in.chooseValue(t, what)
		if signed {
			return toSigned(u, t.S.W)
		}
		return int64(u)
	}
	if signed {
		return toSigned(t.C, t.S.W)
	}
	return int64(t.C)
}

func isSigned(t types.Type) bool {
	_, s, _ := basicSort(t)
	return s
}

// visitInstr executes one instruction; returns true on Return.
func (in *Interp) visitInstr(fr *frame, instr ssa.Instruction) bool {
	tb := in.tb
	switch instr := instr.(type) {
	case *ssa.DebugRef:

	case *ssa.UnOp:
		fr.env[instr] = in.unop(fr, instr, fr.get(instr.X))

	case *ssa.BinOp:
		fr.env[instr] = in.binop(fr, instr.Op, instr.X.Type(), fr.get(instr.X), fr.get(instr.Y), instr.Y.Type())

	case *ssa.Call:
		fn, args := in.prepareCall(fr, &instr.Call)
		fr.env[instr] = in.call(fr, &instr.Call, fn, args)

	case *ssa.ChangeInterface:
		fr.env[instr] = fr.get(instr.X)

	case *ssa.ChangeType:
		fr.env[instr] = fr.get(instr.X)

	case *ssa.Convert:
		fr.env[instr] = in.conv(fr, instr.Type(), instr.X.Type(), fr.get(instr.X))

	case *ssa.SliceToArrayPointer:
		x := fr.get(instr.X).(Slice)
		n := deref(instr.Type()).Underlying().(*types.Array).Len()
		if int64(len(x.A)) < n {
			fr.fault(tb.False, "slice-to-array")
		}
		if x.A == nil {
			fr.env[instr] = (*Value)(nil)
		} else {
			// share cells: build an Array aliasing is not possible with value arrays; copy (documented limitation)
			arr := make(Array, n)
			copy(arr, x.A[:n])
			var cell Value = arr
			fr.env[instr] = &cell
		}

	case *ssa.MakeInterface:
		fr.env[instr] = Iface{T: instr.X.Type(), V: fr.get(instr.X)}

	case *ssa.Extract:
		fr.env[instr] = fr.get(instr.Tuple).(Tuple)[instr.Index]

	case *ssa.Slice:
		fr.env[instr] = in.sliceOp(fr, instr)

	case *ssa.Return:
		switch len(instr.Results) {
		case 0:
		case 1:
			fr.result = fr.get(instr.Results[0])
		default:
			res := make(Tuple, 0, len(instr.Results))
			for _, r := range instr.Results {
				res = append(res, fr.get(r))
			}
			fr.result = res
		}
		fr.block = nil
		return true

	case *ssa.RunDefers:
		fr.runDefers()

	case *ssa.Panic:
		// an explicit panic in library code is a fault (go-bt never recovers)
		in.obligation(tb.False, "fault:panic@"+fr.fname(), true)
		panic(pathEnd{"panic"})

	case *ssa.Store:
		in.store(fr, fr.get(instr.Addr), fr.get(instr.Val))

	case *ssa.If:
		succ := 1
		if in.decide(fr, instr, fr.get(instr.Cond).(*Term)) {
			succ = 0
		}
		fr.prevBlock, fr.block = fr.block, fr.block.Succs[succ]

	case *ssa.Jump:
		fr.prevBlock, fr.block = fr.block, fr.block.Succs[0]

	case *ssa.Defer:
		fn, args := in.prepareCall(fr, &instr.Call)
		fr.defers = &deferred{fn: fn, args: args, call: &instr.Call, instr: instr, tail: fr.defers}

	case *ssa.Go:
		panic(engineAbort{"go statement not supported"})

	case *ssa.Alloc:
		var addr *Value
		if instr.Heap {
			addr = new(Value)
			fr.env[instr] = addr
		} else {
			addr = fr.env[instr].(*Value)
		}
		*addr = in.zero(deref(instr.Type()))

	case *ssa.MakeSlice:
		tElt := instr.Type().Underlying().(*types.Slice).Elem()
		in.symAllocCheck(fr, fr.get(instr.Len).(*Term), fr.get(instr.Cap).(*Term), tElt)
		ln := in.concreteInt(fr.get(instr.Len), true, "makeslice-len")
		cp := in.concreteInt(fr.get(instr.Cap), true, "makeslice-cap")
		in.allocCheck(fr, ln, cp, tElt)
		a := make([]Value, cp)
		for i := range a {
			a[i] = in.zero(tElt)
		}
		fr.env[instr] = Slice{A: a[:ln]}

	case *ssa.MakeMap:
		fr.env[instr] = newMap()

	case *ssa.Range:
		fr.env[instr] = in.rangeIter(fr.get(instr.X))

	case *ssa.Next:
		fr.env[instr] = in.iterNext(fr.get(instr.Iter).(*Iter), instr)

	case *ssa.FieldAddr:
		p := fr.get(instr.X)
		pp, ok := p.(*Value)
		if !ok {
			panic(engineAbort{fmt.Sprintf("FieldAddr on %T", p)})
		}
		if pp == nil {
			fr.fault(tb.False, "nil-deref")
		}
		st, ok := (*pp).(Struct)
		if !ok {
			panic(engineAbort{fmt.Sprintf("FieldAddr: cell holds %T in %s (%s)", *pp, fr.fn, instr)})
		}
		fr.env[instr] = &st[instr.Field]

	case *ssa.Field:
		fr.env[instr] = copyVal(fr.get(instr.X).(Struct)[instr.Field])

	case *ssa.IndexAddr:
		x := fr.get(instr.X)
		var cells []Value
		switch x := x.(type) {
		case Slice:
			cells = x.A
		case *Value:
			if x == nil {
				fr.fault(tb.False, "nil-deref")
			}
			cells = (*x).(Array)
		default:
			panic(engineAbort{fmt.Sprintf("IndexAddr on %T", x)})
		}
		idx := in.index64(fr.get(instr.Index), instr.Index.Type())
		fr.env[instr] = in.elemAddr(fr, cells, idx)

	case *ssa.Index:
		x := fr.get(instr.X)
		idx := in.index64(fr.get(instr.Index), instr.Index.Type())
		switch x := x.(type) {
		case Array:
			fr.env[instr] = copyVal(in.load(fr, in.elemAddr(fr, x, idx)))
		case Str:
			fr.env[instr] = in.strIndex(fr, x, idx)
		default:
			panic(engineAbort{fmt.Sprintf("Index on %T", x)})
		}

	case *ssa.Lookup:
		x := fr.get(instr.X)
		switch x := x.(type) {
		case Str:
			idx := in.index64(fr.get(instr.Index), instr.Index.Type())
			fr.env[instr] = in.strIndex(fr, x, idx)
		case *Map:
			if in.race != nil {
				in.curFn = fr.fn
				in.raceAccessMap(x, false)
			}
			var v Value
			var ok bool
			if ks, isStr := fr.get(instr.Index).(Str); isStr && !ks.IsConcrete() && !ks.Opaque && x != nil {
				// symbolic string key: match against the stored (concrete) keys of the same length,
				// one solver decision per candidate, instead of enumerating the key's bytes
				v, ok = in.mapLookupSymStr(fr, x, ks)
			} else {
				k := in.mapKeyVal(fr.get(instr.Index))
				v, ok = x.get(in, k)
			}
			if !ok {
				v = in.zero(instr.X.Type().Underlying().(*types.Map).Elem())
			}
			v = copyVal(v)
			if instr.CommaOk {
				fr.env[instr] = Tuple{v, tb.Bool(ok)}
			} else {
				fr.env[instr] = v
			}
		default:
			panic(engineAbort{fmt.Sprintf("Lookup on %T", x)})
		}

	case *ssa.MapUpdate:
		m := fr.get(instr.Map).(*Map)
		if m == nil {
			fr.fault(tb.False, "nil-map-write")
		}
		if in.globalMaps != nil && in.globalMaps[m] {
			in.sharedWrites = append(in.sharedWrites, "map update in "+fr.fname())
		}
		if in.race != nil {
			in.curFn = fr.fn
			in.raceAccessMap(m, true)
		}
		m.set(in, in.mapKeyVal(fr.get(instr.Key)), copyVal(fr.get(instr.Value)))

	case *ssa.TypeAssert:
		fr.env[instr] = in.typeAssert(fr, instr, fr.get(instr.X).(Iface))

	case *ssa.MakeClosure:
		var bindings []Value
		for _, b := range instr.Bindings {
			bindings = append(bindings, fr.get(b))
		}
		fr.env[instr] = &Closure{instr.Fn.(*ssa.Function), bindings}

	case *ssa.Phi:
		panic("unreachable phi")

	default:
		panic(engineAbort{fmt.Sprintf("unsupported instruction %T in %s", instr, fr.fn)})
	}
	return false
}

// mapKeyVal concretises symbolic scalar keys by forking.
func (in *Interp) mapLookupSymStr(fr *frame, m *Map, ks Str) (Value, bool) {
	tb := in.tb
	// one query first: can the key equal any stored key at all?
	anyc := tb.False
	for _, e := range m.entries {
		if es, isStr := e.K.(Str); !e.Deleted && isStr && es.IsConcrete() && es.Len() == len(ks.B) {
			c := es.Concrete()
			cond := tb.True
			for i := range ks.B {
				cond = tb.And(cond, tb.Eq(ks.B[i], tb.BVConst(8, uint64(c[i]))))
			}
			anyc = tb.Or(anyc, cond)
		}
	}
	if anyc == tb.False || !in.decide(fr, nil, anyc) {
		return nil, false
	}
	for _, e := range m.entries {
		if e.Deleted {
			continue
		}
		es, isStr := e.K.(Str)
		if !isStr || !es.IsConcrete() {
			panic(engineAbort{"symbolic string lookup in a map with non-string or symbolic keys"})
		}
		c := es.Concrete()
		if len(c) != len(ks.B) {
			continue
		}
		cond := tb.True
		for i := range ks.B {
			cond = tb.And(cond, tb.Eq(ks.B[i], tb.BVConst(8, uint64(c[i]))))
		}
		if cond == tb.False {
			continue
		}
		if in.decide(fr, nil, cond) {
			return e.V, true
		}
	}
	return nil, false
}

func (in *Interp) mapKeyVal(k Value) Value {
	if t, ok := k.(*Term); ok && !t.IsConst() {
		u := in.chooseValue(t, "map-key")
		return in.tb.BVConst(int(t.S.W), u)
	}
	if s, ok := k.(Str); ok && !s.IsConcrete() {
		if s.Opaque {
			panic(engineAbort{"opaque string used as map key"})
		}
		bs := make([]byte, len(s.B))
		for i, b := range s.B {
			bs[i] = byte(in.chooseValue(b, "map-key-byte"))
		}
		return Str{S: string(bs)}
	}
	return k
}

// index64 normalises an index value to a 64-bit term (sign- or zero-extended).
func (in *Interp) index64(v Value, t types.Type) *Term {
	x := v.(*Term)
	if x.S.K == KInt {
		if x.IsConst() {
			return in.tb.BVConst(64, uint64(termInt64(x, true)))
		}
		return in.tb.Int2BV(x, 64)
	}
	if x.S.W == 64 {
		return x
	}
	if isSigned(t) {
		return in.tb.Sext(x, 64)
	}
	return in.tb.Zext(x, 64)
}

func (in *Interp) elemAddr(fr *frame, cells []Value, idx *Term) Value {
	n := len(cells)
	if idx.IsConst() {
		i := int64(idx.C)
		if i < 0 || i >= int64(n) {
			fr.fault(in.tb.False, "index")
		}
		return &cells[i]
	}
	inb := in.tb.Cmp(OUlt, idx, in.tb.BVConst(64, uint64(n)))
	fr.fault(inb, "index")
	// scalar cells: symbolic reference; otherwise fork over the index value
	scalar := true
	for _, c := range cells {
		if _, ok := c.(*Term); !ok {
			scalar = false
			break
		}
	}
	if scalar && n > 0 {
		return SymRef{Base: cells, Idx: idx}
	}
	i := in.chooseValue(idx, "index")
	return &cells[i]
}

func (in *Interp) strIndex(fr *frame, s Str, idx *Term) Value {
	if s.Opaque {
		panic(engineAbort{"index into opaque string"})
	}
	n := s.Len()
	byteAt := func(i int) *Term {
		if s.B != nil {
			return s.B[i]
		}
		return in.tb.BVConst(8, uint64(s.S[i]))
	}
	if idx.IsConst() {
		i := int64(idx.C)
		if i < 0 || i >= int64(n) {
			fr.fault(in.tb.False, "index")
		}
		return byteAt(int(i))
	}
	fr.fault(in.tb.Cmp(OUlt, idx, in.tb.BVConst(64, uint64(n))), "index")
	var res *Term
	for i := n - 1; i >= 0; i-- {
		if res == nil {
			res = byteAt(i)
			continue
		}
		res = in.tb.Ite(in.tb.Eq(idx, in.tb.BVConst(64, uint64(i))), byteAt(i), res)
	}
	return res
}

// symAllocCheck handles a symbolic allocation size: the harness obligation cap (vcap) is an
// obligation; the exploration cap is a recorded cut.
func (in *Interp) symAllocCheck(fr *frame, ln, cp *Term, elt types.Type) {
	if ln.IsConst() && cp.IsConst() {
		return
	}
	tb := in.tb
	sz := in.sizes.Sizeof(elt)
	if sz < 1 {
		sz = 1
	}
	n := cp
	if n.S.K == KInt {
		n = tb.Int2BV(n, 64)
	}
	if n.S.W < 64 {
		n = tb.Sext(n, 64)
	}
	if in.capOblig > 0 {
		ok := tb.And(tb.Cmp(OSle, tb.BVConst(64, 0), n), tb.Cmp(OSle, n, tb.BVConst(64, uint64(in.capOblig/sz))))
		in.obligation(ok, "fault:alloc-cap@"+fr.fname(), true)
	}
	lim := in.capExplore
	if lim <= 0 || lim > in.cfg.AllocCap {
		lim = in.cfg.AllocCap
	}
	okx := tb.And(tb.Cmp(OSle, tb.BVConst(64, 0), n), tb.Cmp(OSle, n, tb.BVConst(64, uint64(lim/sz))))
	if in.capOblig <= 0 || lim < in.capOblig {
		if in.dpos >= len(in.decisions) && in.sol.CheckWith(tb.Not(okx)) != Unsat {
			in.cuts[fmt.Sprintf("allocation sizes above %d bytes not explored at %s", lim, fr.fname())] = true
		}
	}
	in.assume(okx)
}

func (in *Interp) allocCheck(fr *frame, ln, cp int64, elt types.Type) {
	if ln < 0 || cp < ln {
		fr.fault(in.tb.False, "makeslice")
	}
	sz := in.sizes.Sizeof(elt)
	if sz < 1 {
		sz = 1
	}
	if cp*sz > in.cfg.AllocCap {
		panic(engineAbort{fmt.Sprintf("allocation of %d bytes above engine cap %d in %s", cp*sz, in.cfg.AllocCap, fr.fn)})
	}
}

func (in *Interp) sliceOp(fr *frame, instr *ssa.Slice) Value {
	x := fr.get(instr.X)
	tb := in.tb
	var lo, hi, max int64 = 0, -1, -1
	geti := func(v ssa.Value) int64 {
		return in.concreteInt(in.index64(fr.get(v), v.Type()), true, "slice-bound")
	}
	// For symbolic bounds, first check the range obligation symbolically, then concretise.
	checkSym := func(length, capacity int) {
		var loT, hiT, maxT *Term
		loT = tb.BVConst(64, 0)
		if instr.Low != nil {
			loT = in.index64(fr.get(instr.Low), instr.Low.Type())
		}
		hiT = tb.BVConst(64, uint64(length))
		if instr.High != nil {
			hiT = in.index64(fr.get(instr.High), instr.High.Type())
		}
		maxT = tb.BVConst(64, uint64(capacity))
		if instr.Max != nil {
			maxT = in.index64(fr.get(instr.Max), instr.Max.Type())
		}
		if loT.IsConst() && hiT.IsConst() && maxT.IsConst() {
			return
		}
		ok := tb.And(tb.Cmp(OUle, loT, hiT), tb.And(tb.Cmp(OUle, hiT, maxT), tb.Cmp(OUle, maxT, tb.BVConst(64, uint64(capacity)))))
		fr.fault(ok, "slice-bounds")
	}
	switch x := x.(type) {
	case Str:
		if x.Opaque {
			in.cuts["substring of an unmodelled (opaque) string taken without bounds check"] = true
			return opaqueStr()
		}
		n := x.Len()
		checkSym(n, n)
		if instr.Low != nil {
			lo = geti(instr.Low)
		}
		hi = int64(n)
		if instr.High != nil {
			hi = geti(instr.High)
		}
		if lo < 0 || lo > hi || hi > int64(n) {
			fr.fault(tb.False, "slice-bounds")
		}
		if x.B != nil {
			return Str{B: x.B[lo:hi:hi]}
		}
		return Str{S: x.S[lo:hi]}
	case Slice:
		checkSym(len(x.A), cap(x.A))
		if instr.Low != nil {
			lo = geti(instr.Low)
		}
		hi = int64(len(x.A))
		if instr.High != nil {
			hi = geti(instr.High)
		}
		max = int64(cap(x.A))
		if instr.Max != nil {
			max = geti(instr.Max)
		}
		if lo < 0 || lo > hi || hi > max || max > int64(cap(x.A)) {
			fr.fault(tb.False, "slice-bounds")
		}
		if x.A == nil {
			return Slice{}
		}
		return Slice{A: x.A[lo:hi:max]}
	case *Value: // pointer to array
		if x == nil {
			fr.fault(tb.False, "nil-deref")
		}
		a := (*x).(Array)
		checkSym(len(a), len(a))
		if instr.Low != nil {
			lo = geti(instr.Low)
		}
		hi = int64(len(a))
		if instr.High != nil {
			hi = geti(instr.High)
		}
		max = int64(len(a))
		if instr.Max != nil {
			max = geti(instr.Max)
		}
		if lo < 0 || lo > hi || hi > max || max > int64(len(a)) {
			fr.fault(tb.False, "slice-bounds")
		}
		return Slice{A: []Value(a)[lo:hi:max]}
	}
	panic(engineAbort{fmt.Sprintf("slice of %T", x)})
}

func (in *Interp) rangeIter(x Value) *Iter {
	switch x := x.(type) {
	case Str:
		if x.Opaque {
			panic(engineAbort{"range over an opaque string"})
		}
		if !x.IsConcrete() {
			return &Iter{kind: 0, str: x} // decoded symbolically, see iterNextSymStr
		}
		return &Iter{kind: 0, str: Str{S: x.Concrete()}}
	case *Map:
		if in.race != nil {
			in.raceAccessMap(x, false)
		}
		return &Iter{kind: 1, m: x}
	}
	panic(engineAbort{fmt.Sprintf("range over %T", x)})
}

func (in *Interp) iterNext(it *Iter, instr *ssa.Next) Value {
	tb := in.tb
	if it.kind == 0 && it.str.Opaque {
		panic(engineAbort{"range over an opaque string"})
	}
	if it.kind == 0 && it.str.B != nil && !it.str.IsConcrete() {
		return in.iterNextSymStr(it)
	}
	if it.kind == 0 {
		s := it.str.S
		if it.str.B != nil {
			s = it.str.Concrete()
		}
		if it.pos >= len(s) {
			return Tuple{tb.False, in.mkInt(0), tb.BVConst(32, 0)}
		}
		for i, r := range s[it.pos:] {
			_ = i
			p := it.pos
			it.pos += len(string(r))
			if r == 0xFFFD { // could be invalid byte: width 1
				it.pos = p + 1
				if strings.HasPrefix(s[p:], "\xef\xbf\xbd") {
					it.pos = p + 3
				}
			}
			return Tuple{tb.True, in.mkInt(int64(p)), tb.BVConst(32, uint64(r))}
		}
	}
	m := it.m
	if m != nil {
		for it.pos < len(m.entries) {
			e := m.entries[it.pos]
			it.pos++
			if !e.Deleted {
				return Tuple{tb.True, e.K, copyVal(e.V)}
			}
		}
	}
	tt := instr.Type().(*types.Tuple)
	return Tuple{tb.False, in.zero(tt.At(1).Type()), in.zero(tt.At(2).Type())}
}

// iterNextSymStr: one step of `for i, r := range s` over a string with symbolic bytes: UTF-8 decoding
// as the Go specification defines it (shortest forms only, surrogates and values above U+10FFFF are
// errors; an invalid byte yields U+FFFD and advances by one), each class test a solver decision.
func (in *Interp) iterNextSymStr(it *Iter) Value {
	tb := in.tb
	bs := it.str.B
	p := it.pos
	if p >= len(bs) {
		return Tuple{tb.False, in.mkInt(0), tb.BVConst(32, 0)}
	}
	fr := in.curFrame
	c8 := func(v uint64) *Term { return tb.BVConst(8, v) }
	inr := func(b *Term, lo, hi uint64) *Term { return tb.And(tb.Cmp(OUle, c8(lo), b), tb.Cmp(OUle, b, c8(hi))) }
	z := func(b *Term, mask uint64) *Term { return tb.Zext(tb.Bin(OBand, b, c8(mask)), 32) }
	shl := func(t *Term, n uint64) *Term { return tb.Bin(OShl, t, tb.BVConst(32, n)) }
	or := func(a, b *Term) *Term { return tb.Bin(OBor, a, b) }
	ret := func(r *Term, w int) Value {
		it.pos = p + w
		return Tuple{tb.True, in.mkInt(int64(p)), r}
	}
	b0 := bs[p]
	if in.decide(fr, nil, tb.Cmp(OUlt, b0, c8(0x80))) {
		return ret(tb.Zext(b0, 32), 1)
	}
	cont := func(b *Term) *Term { return inr(b, 0x80, 0xbf) }
	if p+1 < len(bs) {
		b1 := bs[p+1]
		if in.decide(fr, nil, tb.And(inr(b0, 0xc2, 0xdf), cont(b1))) {
			return ret(or(shl(z(b0, 0x1f), 6), z(b1, 0x3f)), 2)
		}
		if p+2 < len(bs) {
			b2 := bs[p+2]
			second := tb.Ite(tb.Eq(b0, c8(0xe0)), inr(b1, 0xa0, 0xbf), tb.Ite(tb.Eq(b0, c8(0xed)), inr(b1, 0x80, 0x9f), cont(b1)))
			if in.decide(fr, nil, tb.And(inr(b0, 0xe0, 0xef), tb.And(second, cont(b2)))) {
				return ret(or(or(shl(z(b0, 0x0f), 12), shl(z(b1, 0x3f), 6)), z(b2, 0x3f)), 3)
			}
			if p+3 < len(bs) {
				b3 := bs[p+3]
				second4 := tb.Ite(tb.Eq(b0, c8(0xf0)), inr(b1, 0x90, 0xbf), tb.Ite(tb.Eq(b0, c8(0xf4)), inr(b1, 0x80, 0x8f), cont(b1)))
				if in.decide(fr, nil, tb.And(inr(b0, 0xf0, 0xf4), tb.And(second4, tb.And(cont(b2), cont(b3))))) {
					return ret(or(or(or(shl(z(b0, 0x07), 18), shl(z(b1, 0x3f), 12)), shl(z(b2, 0x3f), 6)), z(b3, 0x3f)), 4)
				}
			}
		}
	}
	return ret(tb.BVConst(32, 0xFFFD), 1)
}

func (in *Interp) typeAssert(fr *frame, instr *ssa.TypeAssert, itf Iface) Value {
	var ok bool
	var v Value
	if types.IsInterface(instr.AssertedType) {
		v = itf
		if itf.T != nil {
			ok = in.implements(itf, instr.AssertedType.Underlying().(*types.Interface))
		}
	} else {
		v = itf.V
		ok = itf.T != nil && types.Identical(itf.T, instr.AssertedType)
	}
	if !ok {
		if !instr.CommaOk {
			fr.fault(in.tb.False, "type-assert")
		}
		v = in.zero(instr.AssertedType)
	}
	if instr.CommaOk {
		return Tuple{v, in.tb.Bool(ok)}
	}
	return v
}

func (in *Interp) implements(itf Iface, it *types.Interface) bool {
	if o, isOp := itf.V.(*Opaque); isOp && o != nil && o.Kind == "error" {
		// engine-native error: has Error() and Unwrap()
		for i := 0; i < it.NumMethods(); i++ {
			n := it.Method(i).Name()
			if n != "Error" && n != "Unwrap" {
				return false
			}
		}
		return true
	}
	return types.Implements(itf.T, it)
}

func (in *Interp) prepareCall(fr *frame, call *ssa.CallCommon) (fn Value, args []Value) {
	v := fr.get(call.Value)
	if call.Method == nil {
		fn = v
	} else {
		recv := v.(Iface)
		if recv.T == nil {
			fr.fault(in.tb.False, "nil-iface-call")
		}
		if o, ok := recv.V.(*Opaque); ok && o != nil {
			fn = &opaqueMethod{o, call.Method.Name()}
		} else {
			f := in.prog.LookupMethod(recv.T, call.Method.Pkg(), call.Method.Name())
			if f == nil {
				panic(engineAbort{fmt.Sprintf("method %s not found on %v", call.Method, recv.T)})
			}
			fn = f
		}
		args = append(args, recv.V)
	}
	for _, a := range call.Args {
		args = append(args, fr.get(a))
	}
	return
}

type opaqueMethod struct {
	o    *Opaque
	name string
}

func (in *Interp) call(caller *frame, cc *ssa.CallCommon, fn Value, args []Value) Value {
	switch fn := fn.(type) {
	case *ssa.Function:
		if fn == nil {
			caller.fault(in.tb.False, "nil-func-call")
		}
		return in.callSSA(caller, fn, args, nil)
	case *Closure:
		if fn == nil {
			caller.fault(in.tb.False, "nil-func-call")
		}
		return in.callSSA(caller, fn.Fn, args, fn.Env)
	case *ssa.Builtin:
		return in.callBuiltin(caller, cc, fn, args)
	case *opaqueMethod:
		return in.callOpaqueMethod(caller, fn, args)
	}
	panic(engineAbort{fmt.Sprintf("cannot call %T", fn)})
}

func (in *Interp) callSSA(caller *frame, fn *ssa.Function, args []Value, env []Value) Value {
	in.depth++
	if in.depth > 400 {
		panic(boundHit{"call depth > 400 at " + fn.String()})
	}
	defer func() { in.depth-- }()
	fr := &frame{in: in, caller: caller, fn: fn}
	if fn.Parent() == nil {
		name := fn.String()
		if ext, ok := intrinsics[name]; ok {
			return ext(in, fr, args)
		}
		if fn.Name() == "init" && fn.Signature.Recv() == nil && fn.Pkg != nil && fn.Pkg.Func("init") == fn {
			if !in.wantInit(fn.Pkg) {
				return nil
			}
			in.initialised[fn.Pkg] = true
		}
		if strings.HasPrefix(fn.Name(), "vnondet") || strings.HasPrefix(fn.Name(), "vassume") || vIntrinsic(fn.Name()) != nil {
			if h := vIntrinsic(fn.Name()); h != nil && fn.Blocks == nil {
				return h(in, fr, args)
			}
		}
		if fn.Blocks == nil {
			if in.inInit {
				return in.zeroResult(fn)
			}
			panic(engineAbort{"unmodelled callee: " + name})
		}
	}
	in.noteFunc(fn)
	fr.env = make(map[ssa.Value]Value)
	fr.block = fn.Blocks[0]
	fr.locals = make([]Value, len(fn.Locals))
	for i, l := range fn.Locals {
		fr.locals[i] = in.zero(deref(l.Type()))
		fr.env[l] = &fr.locals[i]
	}
	for i, p := range fn.Params {
		fr.env[p] = args[i]
	}
	for i, fv := range fn.FreeVars {
		fr.env[fv] = env[i]
	}
	for fr.block != nil {
		in.runBlock(fr)
	}
	return fr.result
}

func (in *Interp) zeroResult(fn *ssa.Function) Value {
	res := fn.Signature.Results()
	switch res.Len() {
	case 0:
		return nil
	case 1:
		return in.zeroOrOpaque(res.At(0).Type())
	}
	t := make(Tuple, res.Len())
	for i := range t {
		t[i] = in.zeroOrOpaque(res.At(i).Type())
	}
	return t
}

func (in *Interp) zeroOrOpaque(t types.Type) Value {
	defer func() {
		if r := recover(); r != nil {
			panic(r)
		}
	}()
	return in.zero(t)
}

func (in *Interp) runBlock(fr *frame) {
	// phis
	b := fr.block
	instrs := b.Instrs
	nphi := 0
	for nphi < len(instrs) {
		if _, ok := instrs[nphi].(*ssa.Phi); !ok {
			break
		}
		nphi++
	}
	if nphi > 0 {
		predIndex := -1
		for i, p := range b.Preds {
			if p == fr.prevBlock {
				predIndex = i
				break
			}
		}
		fr.phitemps = fr.phitemps[:0]
		for _, phi := range instrs[:nphi] {
			fr.phitemps = append(fr.phitemps, fr.get(phi.(*ssa.Phi).Edges[predIndex]))
		}
		for i, phi := range instrs[:nphi] {
			fr.env[phi.(*ssa.Phi)] = fr.phitemps[i]
		}
	}
	for _, instr := range instrs[nphi:] {
		in.steps++
		if in.steps > in.cfg.MaxSteps {
			panic(boundHit{fmt.Sprintf("step bound %d exceeded in %s", in.cfg.MaxSteps, fr.fn)})
		}
		if in.trace {
			if v, ok := instr.(ssa.Value); ok {
				fmt.Printf("  [%s] %s = %s\n", fr.fn.Name(), v.Name(), instr)
			} else {
				fmt.Printf("  [%s] %s\n", fr.fn.Name(), instr)
			}
		}
		if in.visitInstr(fr, instr) {
			return
		}
		if fr.block != b {
			return
		}
	}
}

func (fr *frame) runDefers() {
	for d := fr.defers; d != nil; d = d.tail {
		fr.in.call(fr, d.call, d.fn, d.args)
	}
	fr.defers = nil
}

func (in *Interp) callBuiltin(fr *frame, cc *ssa.CallCommon, fn *ssa.Builtin, args []Value) Value {
	tb := in.tb
	switch fn.Name() {
	case "append":
		dst := args[0].(Slice)
		var src []Value
		switch s := args[1].(type) {
		case Slice:
			src = s.A
		case Str:
			src = in.strBytes(s)
		default:
			panic(engineAbort{fmt.Sprintf("append of %T", s)})
		}
		if len(src) == 0 {
			return dst
		}
		elt := cc.Args[0].Type().Underlying().(*types.Slice).Elem()
		need := len(dst.A) + len(src)
		if need <= cap(dst.A) {
			res := dst.A[:need]
			for i, v := range src {
				in.storeCell(fr, &res[len(dst.A)+i], copyVal(v))
			}
			return Slice{A: res}
		}
		sz := in.sizes.Sizeof(elt)
		ncap := growCap(cap(dst.A), need, sz)
		in.allocCheck(fr, int64(need), int64(ncap), elt)
		na := make([]Value, ncap)
		copy(na, dst.A)
		for i, v := range src {
			na[len(dst.A)+i] = copyVal(v)
		}
		for i := need; i < ncap; i++ {
			na[i] = in.zero(elt)
		}
		return Slice{A: na[:need]}

	case "copy":
		dst := args[0].(Slice)
		var src []Value
		switch s := args[1].(type) {
		case Slice:
			src = s.A
		case Str:
			src = in.strBytes(s)
		}
		n := len(dst.A)
		if len(src) < n {
			n = len(src)
		}
		// memmove semantics
		tmp := make([]Value, n)
		copy(tmp, src[:n])
		for i := 0; i < n; i++ {
			in.storeCell(fr, &dst.A[i], copyVal(tmp[i]))
		}
		return in.mkInt(int64(n))

	case "len":
		switch x := args[0].(type) {
		case Str:
			if x.Opaque {
				panic(engineAbort{"len of opaque string"})
			}
			return in.mkInt(int64(x.Len()))
		case Slice:
			return in.mkInt(int64(len(x.A)))
		case Array:
			return in.mkInt(int64(len(x)))
		case *Value:
			return in.mkInt(int64(len((*x).(Array))))
		case *Map:
			if x == nil {
				return in.mkInt(0)
			}
			return in.mkInt(int64(x.n))
		}
		panic(engineAbort{fmt.Sprintf("len of %T", args[0])})

	case "cap":
		switch x := args[0].(type) {
		case Slice:
			return in.mkInt(int64(cap(x.A)))
		case Array:
			return in.mkInt(int64(len(x)))
		case *Value:
			return in.mkInt(int64(len((*x).(Array))))
		}
		panic(engineAbort{fmt.Sprintf("cap of %T", args[0])})

	case "delete":
		if in.globalMaps != nil && in.globalMaps[args[0].(*Map)] {
			in.sharedWrites = append(in.sharedWrites, "map delete in "+fr.fname())
		}
		args[0].(*Map).del(in, in.mapKeyVal(args[1]))
		return nil

	case "print", "println":
		return nil

	case "recover":
		return Iface{}

	case "min", "max":
		res := args[0].(*Term)
		signed := isSigned(cc.Args[0].Type())
		if res.S.K == KInt {
			for _, a := range args[1:] {
				x := a.(*Term)
				if fn.Name() == "min" {
					res = tb.Ite(tb.IBin(OILt, x, res), x, res)
				} else {
					res = tb.Ite(tb.IBin(OILt, res, x), x, res)
				}
			}
			return res
		}
		op := OUlt
		if signed {
			op = OSlt
		}
		for _, a := range args[1:] {
			x := a.(*Term)
			if fn.Name() == "min" {
				res = tb.Ite(tb.Cmp(op, x, res), x, res)
			} else {
				res = tb.Ite(tb.Cmp(op, res, x), x, res)
			}
		}
		return res

	case "ssa:wrapnilchk":
		recv := args[0]
		if p, ok := recv.(*Value); ok && p == nil {
			fr.fault(tb.False, "nil-deref")
		}
		return recv
	}
	panic(engineAbort{"unsupported builtin " + fn.Name()})
}

func (in *Interp) strBytes(s Str) []Value {
	if s.Opaque {
		panic(engineAbort{"bytes of opaque string"})
	}
	n := s.Len()
	r := make([]Value, n)
	for i := 0; i < n; i++ {
		if s.B != nil {
			r[i] = s.B[i]
		} else {
			r[i] = in.tb.BVConst(8, uint64(s.S[i]))
		}
	}
	return r
}

// growCap mirrors runtime.growslice (go1.20+) including malloc size-class rounding for small sizes.
func growCap(oldCap, newLen int, elemSize int64) int {
	newcap := oldCap
	doublecap := newcap + newcap
	if newLen > doublecap {
		newcap = newLen
	} else {
		const threshold = 256
		if oldCap < threshold {
			newcap = doublecap
		} else {
			for newcap < newLen {
				newcap += (newcap + 3*threshold) / 4
			}
		}
	}
	if elemSize <= 0 {
		return newcap
	}
	mem := roundupsize(int64(newcap) * elemSize)
	return int(mem / elemSize)
}

var sizeClasses = []int64{0, 8, 16, 24, 32, 48, 64, 80, 96, 112, 128, 144, 160, 176, 192, 208, 224, 240, 256, 288, 320, 352, 384, 416, 448, 480, 512, 576, 640, 704, 768, 896, 1024, 1152, 1280, 1408, 1536, 1792, 2048, 2304, 2688, 3072, 3200, 3456, 4096, 4864, 5376, 6144, 6528, 6784, 6912, 8192, 9472, 9728, 10240, 10880, 12288, 13568, 14336, 16384, 18432, 19072, 20480, 21760, 24576, 27264, 28672, 32768}

func roundupsize(n int64) int64 {
	if n <= 32768 {
		for _, c := range sizeClasses {
			if c >= n {
				return c
			}
		}
	}
	const page = 8192
	return (n + page - 1) / page * page
}

var _ = token.NoPos
