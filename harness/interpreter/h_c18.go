package interpreter

import (
	"github.com/libsv/go-bt/v2"
	"github.com/libsv/go-bt/v2/bscript"
)

var vC18Calls = []string{"WithScripts", "WithTx", "WithScripts+ForkID"}

type vc18Job struct {
	ls, us *bscript.Script
	tx     *bt.Tx
	prev   *bt.Output
}

func vc18NewJob() *vc18Job {
	ls, us := bscript.Script{bscript.Op1}, bscript.Script{}
	tx := bt.NewTx()
	in := &bt.Input{PreviousTxOutIndex: 0, SequenceNumber: 0xffffffff, UnlockingScript: &us}
	_ = in.PreviousTxIDAdd(make([]byte, 32))
	tx.Inputs = append(tx.Inputs, in)
	return &vc18Job{ls: &ls, us: &us, tx: tx, prev: &bt.Output{Satoshis: 1, LockingScript: &ls}}
}

// one validation on a shared engine; every call has its own transaction and scripts
func vc18Call(e Engine, kind int, j *vc18Job) error {
	switch kind {
	case 0:
		return e.Execute(WithScripts(j.ls, j.us))
	case 1:
		return e.Execute(WithTx(j.tx, 0, j.prev), WithAfterGenesis())
	}
	return e.Execute(WithScripts(j.ls, j.us), WithForkID())
}

// C18-C: two validations of any two kinds on ONE engine value: no schedule of the two calls makes
// two conflicting accesses to state reachable from the engine adjacent, and both verdicts are the
// sequential ones.
func VH_C18_Engine() {
	e := NewEngine()
	vshared(e, "Engine")
	k1 := vnondetLen("m1", 0, len(vC18Calls)-1)
	k2 := vnondetLen("m2", k1, len(vC18Calls)-1)
	j1, j2 := vc18NewJob(), vc18NewJob()
	vthread(1)
	err1 := vc18Call(e, k1, j1)
	vthread(2)
	err2 := vc18Call(e, k2, j2)
	vraceCheck()
	vassert(err1 == nil && err2 == nil, "C18: both validations on the shared engine give the sequential verdict")
	vreach("c18-engine-pair-checked")
}
