package interpreter

import (
	"crypto/sha1" //nolint:gosec // script opcode
	"crypto/sha256"
	"math/big"

	"github.com/libsv/go-bt/v2/bscript"
	"github.com/libsv/go-bt/v2/bscript/interpreter/errs"
	"github.com/libsv/go-bt/v2/bscript/interpreter/scriptflag"
	"golang.org/x/crypto/ripemd160" //nolint:staticcheck // script opcode
)

// ---------------------------------------------------------------------------------------
// Reference semantics of the non-signature opcodes, written from the Bitcoin SV script rules
// (Genesis specification / node interpreter.cpp), on byte strings and big integers. It is
// validated natively against the node's script_tests.json (TestVerifRefScripts) and is the
// oracle of the C05 harnesses.
// ---------------------------------------------------------------------------------------

type refStacks struct {
	d, a [][]byte
}

const (
	refOK = iota
	refErr
	refEarlyOK // post-Genesis top-level OP_RETURN
)

func refIsTrue(b []byte) bool {
	for i := range b {
		if b[i] != 0 {
			return !(i == len(b)-1 && b[i] == 0x80)
		}
	}
	return false
}

// refDecode: little-endian sign-magnitude number; ok=false if too long or (when required) not minimal.
func refDecode(b []byte, maxLen int, minimal bool) (*big.Int, bool) {
	if len(b) > maxLen {
		return nil, false
	}
	if minimal && len(b) > 0 && b[len(b)-1]&0x7f == 0 {
		if len(b) == 1 || b[len(b)-2]&0x80 == 0 {
			return nil, false
		}
	}
	n := new(big.Int)
	if len(b) == 0 {
		return n, true
	}
	mag := make([]byte, len(b)) // big-endian magnitude
	for i := range b {
		mag[len(b)-1-i] = b[i]
	}
	neg := mag[0]&0x80 != 0
	mag[0] &= 0x7f
	n.SetBytes(mag)
	if neg {
		n.Neg(n)
	}
	return n, true
}

// refEncode: minimal little-endian sign-magnitude encoding.
func refEncode(n *big.Int) []byte {
	if n.Sign() == 0 {
		return []byte{}
	}
	mag := new(big.Int).Abs(n).Bytes() // big-endian
	out := make([]byte, len(mag))
	for i := range mag {
		out[len(mag)-1-i] = mag[i]
	}
	if out[len(out)-1]&0x80 != 0 {
		if n.Sign() < 0 {
			out = append(out, 0x80)
		} else {
			out = append(out, 0x00)
		}
	} else if n.Sign() < 0 {
		out[len(out)-1] |= 0x80
	}
	return out
}

// refMinimalBytes: the minimal encoding of the number a byte string denotes (OP_BIN2NUM / OP_NUM2BIN).
func refMinimalBytes(b []byte) []byte {
	n, _ := refDecode(b, len(b), false)
	return refEncode(n)
}

func refBoolBytes(v bool) []byte {
	if v {
		return []byte{1}
	}
	return []byte{}
}

func refShift(x []byte, n *big.Int, left bool) []byte {
	out := make([]byte, len(x))
	if n.Cmp(big.NewInt(int64(8*len(x)))) >= 0 {
		return out
	}
	k := int(n.Int64())
	// bit i of the big-endian bit string, i = 0 is the most significant bit
	total := 8 * len(x)
	for i := 0; i < total; i++ {
		src := i + k
		if !left {
			src = i - k
		}
		if src < 0 || src >= total {
			continue
		}
		if x[src/8]&(0x80>>uint(src%8)) != 0 {
			out[i/8] |= 0x80 >> uint(i%8)
		}
	}
	return out
}

// refMinimalPush: is (op, data) the shortest way to push data?
func refMinimalPush(op byte, data []byte) bool {
	switch {
	case len(data) == 0:
		return op == bscript.Op0
	case len(data) == 1 && data[0] >= 1 && data[0] <= 16:
		return op == bscript.Op1+data[0]-1
	case len(data) == 1 && data[0] == 0x81:
		return op == bscript.Op1NEGATE
	case len(data) <= 75:
		return int(op) == len(data)
	case len(data) <= 255:
		return op == bscript.OpPUSHDATA1
	case len(data) <= 65535:
		return op == bscript.OpPUSHDATA2
	}
	return true
}

// refExec: one executed (branch taken) non-signature opcode. Returns the verdict class.
func refExec(op byte, data []byte, after bool, flags scriptflag.Flag, st *refStacks) int {
	maxNum := 4
	maxElem := 520
	if after {
		maxNum = 750000
		maxElem = 0x7fffffff
	}
	minimal := flags&scriptflag.VerifyMinimalData != 0
	failed := false
	pop := func() []byte {
		if len(st.d) == 0 {
			failed = true
			return nil
		}
		v := st.d[len(st.d)-1]
		st.d = st.d[:len(st.d)-1]
		return v
	}
	popNum := func() *big.Int {
		b := pop()
		if failed {
			return new(big.Int)
		}
		n, ok := refDecode(b, maxNum, minimal)
		if !ok {
			failed = true
			return new(big.Int)
		}
		return n
	}
	push := func(b []byte) { st.d = append(st.d, b) }
	pushNum := func(n *big.Int) { push(refEncode(n)) }
	need := func(n int) bool {
		if len(st.d) < n {
			failed = true
			return false
		}
		return true
	}
	top := func(i int) []byte { return st.d[len(st.d)-1-i] }

	switch {
	case op <= bscript.OpPUSHDATA4:
		if len(data) > maxElem {
			return refErr
		}
		if minimal && !refMinimalPush(op, data) {
			return refErr
		}
		push(data)
		return refOK
	case op == bscript.Op1NEGATE:
		push([]byte{0x81})
		return refOK
	case op >= bscript.Op1 && op <= bscript.Op16:
		push([]byte{op - bscript.Op1 + 1})
		return refOK
	}

	switch op {
	case bscript.OpNOP, bscript.OpCODESEPARATOR:
	case bscript.OpNOP1, bscript.OpNOP4, bscript.OpNOP5, bscript.OpNOP6, bscript.OpNOP7, bscript.OpNOP8, bscript.OpNOP9, bscript.OpNOP10:
		if flags&scriptflag.DiscourageUpgradableNops != 0 {
			return refErr
		}
	case bscript.OpVERIFY:
		v := pop()
		if failed || !refIsTrue(v) {
			return refErr
		}
	case bscript.OpRETURN:
		if !after {
			return refErr
		}
		return refEarlyOK
	case bscript.OpTOALTSTACK:
		v := pop()
		if failed {
			return refErr
		}
		st.a = append(st.a, v)
	case bscript.OpFROMALTSTACK:
		if len(st.a) == 0 {
			return refErr
		}
		push(st.a[len(st.a)-1])
		st.a = st.a[:len(st.a)-1]
	case bscript.Op2DROP:
		pop()
		pop()
	case bscript.Op2DUP:
		if need(2) {
			a, b := top(1), top(0)
			push(a)
			push(b)
		}
	case bscript.Op3DUP:
		if need(3) {
			a, b, c := top(2), top(1), top(0)
			push(a)
			push(b)
			push(c)
		}
	case bscript.Op2OVER:
		if need(4) {
			a, b := top(3), top(2)
			push(a)
			push(b)
		}
	case bscript.Op2ROT:
		if need(6) {
			n := len(st.d)
			a, b := st.d[n-6], st.d[n-5]
			st.d = append(st.d[:n-6:n-6], st.d[n-4:]...)
			push(a)
			push(b)
		}
	case bscript.Op2SWAP:
		if need(4) {
			n := len(st.d)
			st.d[n-4], st.d[n-3], st.d[n-2], st.d[n-1] = st.d[n-2], st.d[n-1], st.d[n-4], st.d[n-3]
		}
	case bscript.OpIFDUP:
		if need(1) && refIsTrue(top(0)) {
			push(top(0))
		}
	case bscript.OpDEPTH:
		pushNum(big.NewInt(int64(len(st.d))))
	case bscript.OpDROP:
		pop()
	case bscript.OpDUP:
		if need(1) {
			push(top(0))
		}
	case bscript.OpNIP:
		if need(2) {
			n := len(st.d)
			st.d = append(st.d[:n-2:n-2], st.d[n-1])
		}
	case bscript.OpOVER:
		if need(2) {
			push(top(1))
		}
	case bscript.OpPICK, bscript.OpROLL:
		n := popNum()
		if failed || n.Sign() < 0 || n.Cmp(big.NewInt(int64(len(st.d)))) >= 0 {
			return refErr
		}
		k := int(n.Int64())
		idx := len(st.d) - 1 - k
		v := st.d[idx]
		if op == bscript.OpROLL {
			st.d = append(st.d[:idx:idx], st.d[idx+1:]...)
		}
		push(v)
	case bscript.OpROT:
		if need(3) {
			n := len(st.d)
			st.d[n-3], st.d[n-2], st.d[n-1] = st.d[n-2], st.d[n-1], st.d[n-3]
		}
	case bscript.OpSWAP:
		if need(2) {
			n := len(st.d)
			st.d[n-2], st.d[n-1] = st.d[n-1], st.d[n-2]
		}
	case bscript.OpTUCK:
		if need(2) {
			n := len(st.d)
			a, b := st.d[n-2], st.d[n-1]
			st.d = append(st.d[:n-2:n-2], b, a, b)
		}
	case bscript.OpCAT:
		b := pop()
		a := pop()
		if failed || len(a)+len(b) > maxElem {
			return refErr
		}
		push(append(append([]byte{}, a...), b...))
	case bscript.OpSPLIT:
		n := popNum()
		x := pop()
		if failed || n.Sign() < 0 || n.Cmp(big.NewInt(int64(len(x)))) > 0 {
			return refErr
		}
		k := int(n.Int64())
		push(append([]byte{}, x[:k]...))
		push(append([]byte{}, x[k:]...))
	case bscript.OpNUM2BIN:
		size := popNum()
		x := pop()
		if failed || size.Sign() < 0 || size.Cmp(big.NewInt(int64(maxElem))) > 0 {
			return refErr
		}
		m := refMinimalBytes(x)
		if size.Cmp(big.NewInt(int64(len(m)))) < 0 {
			return refErr
		}
		sz := int(size.Int64())
		if len(m) == sz {
			push(m)
			break
		}
		sign := byte(0)
		if len(m) > 0 {
			sign = m[len(m)-1] & 0x80
			m[len(m)-1] &= 0x7f
		}
		for len(m) < sz-1 {
			m = append(m, 0)
		}
		push(append(m, sign))
	case bscript.OpBIN2NUM:
		x := pop()
		if failed {
			return refErr
		}
		m := refMinimalBytes(x)
		if len(m) > maxNum {
			return refErr
		}
		push(m)
	case bscript.OpSIZE:
		if need(1) {
			pushNum(big.NewInt(int64(len(top(0)))))
		}
	case bscript.OpINVERT:
		x := pop()
		if failed {
			return refErr
		}
		r := make([]byte, len(x))
		for i := range x {
			r[i] = ^x[i]
		}
		push(r)
	case bscript.OpAND, bscript.OpOR, bscript.OpXOR:
		b := pop()
		a := pop()
		if failed || len(a) != len(b) {
			return refErr
		}
		r := make([]byte, len(a))
		for i := range a {
			switch op {
			case bscript.OpAND:
				r[i] = a[i] & b[i]
			case bscript.OpOR:
				r[i] = a[i] | b[i]
			default:
				r[i] = a[i] ^ b[i]
			}
		}
		push(r)
	case bscript.OpEQUAL, bscript.OpEQUALVERIFY:
		b := pop()
		a := pop()
		if failed {
			return refErr
		}
		eq := vbytesEq(a, b)
		if op == bscript.OpEQUALVERIFY {
			if !eq {
				return refErr
			}
		} else {
			push(refBoolBytes(eq))
		}
	case bscript.Op1ADD, bscript.Op1SUB, bscript.OpNEGATE, bscript.OpABS, bscript.OpNOT, bscript.Op0NOTEQUAL:
		n := popNum()
		if failed {
			return refErr
		}
		switch op {
		case bscript.Op1ADD:
			pushNum(n.Add(n, big.NewInt(1)))
		case bscript.Op1SUB:
			pushNum(n.Sub(n, big.NewInt(1)))
		case bscript.OpNEGATE:
			pushNum(n.Neg(n))
		case bscript.OpABS:
			pushNum(n.Abs(n))
		case bscript.OpNOT:
			push(refBoolBytes(n.Sign() == 0))
		case bscript.Op0NOTEQUAL:
			push(refBoolBytes(n.Sign() != 0))
		}
	case bscript.OpADD, bscript.OpSUB, bscript.OpMUL, bscript.OpDIV, bscript.OpMOD, bscript.OpBOOLAND, bscript.OpBOOLOR,
		bscript.OpNUMEQUAL, bscript.OpNUMEQUALVERIFY, bscript.OpNUMNOTEQUAL, bscript.OpLESSTHAN, bscript.OpGREATERTHAN,
		bscript.OpLESSTHANOREQUAL, bscript.OpGREATERTHANOREQUAL, bscript.OpMIN, bscript.OpMAX:
		b := popNum()
		a := popNum()
		if failed {
			return refErr
		}
		c := a.Cmp(b)
		switch op {
		case bscript.OpADD:
			pushNum(new(big.Int).Add(a, b))
		case bscript.OpSUB:
			pushNum(new(big.Int).Sub(a, b))
		case bscript.OpMUL:
			pushNum(new(big.Int).Mul(a, b))
		case bscript.OpDIV:
			if b.Sign() == 0 {
				return refErr
			}
			pushNum(new(big.Int).Quo(a, b))
		case bscript.OpMOD:
			if b.Sign() == 0 {
				return refErr
			}
			pushNum(new(big.Int).Rem(a, b))
		case bscript.OpBOOLAND:
			push(refBoolBytes(a.Sign() != 0 && b.Sign() != 0))
		case bscript.OpBOOLOR:
			push(refBoolBytes(a.Sign() != 0 || b.Sign() != 0))
		case bscript.OpNUMEQUAL:
			push(refBoolBytes(c == 0))
		case bscript.OpNUMEQUALVERIFY:
			if c != 0 {
				return refErr
			}
		case bscript.OpNUMNOTEQUAL:
			push(refBoolBytes(c != 0))
		case bscript.OpLESSTHAN:
			push(refBoolBytes(c < 0))
		case bscript.OpGREATERTHAN:
			push(refBoolBytes(c > 0))
		case bscript.OpLESSTHANOREQUAL:
			push(refBoolBytes(c <= 0))
		case bscript.OpGREATERTHANOREQUAL:
			push(refBoolBytes(c >= 0))
		case bscript.OpMIN:
			if c < 0 {
				pushNum(a)
			} else {
				pushNum(b)
			}
		case bscript.OpMAX:
			if c > 0 {
				pushNum(a)
			} else {
				pushNum(b)
			}
		}
	case bscript.OpLSHIFT, bscript.OpRSHIFT:
		n := popNum()
		x := pop()
		if failed || n.Sign() < 0 {
			return refErr
		}
		push(refShift(x, n, op == bscript.OpLSHIFT))
	case bscript.OpWITHIN:
		mx := popNum()
		mn := popNum()
		x := popNum()
		if failed {
			return refErr
		}
		push(refBoolBytes(mn.Cmp(x) <= 0 && x.Cmp(mx) < 0))
	case bscript.OpRIPEMD160:
		x := pop()
		if failed {
			return refErr
		}
		h := ripemd160.New()
		h.Write(x)
		push(h.Sum(nil))
	case bscript.OpSHA1:
		x := pop()
		if failed {
			return refErr
		}
		s := sha1.Sum(x) //nolint:gosec // script opcode
		push(s[:])
	case bscript.OpSHA256:
		x := pop()
		if failed {
			return refErr
		}
		s := sha256.Sum256(x)
		push(s[:])
	case bscript.OpHASH160:
		x := pop()
		if failed {
			return refErr
		}
		s := sha256.Sum256(x)
		h := ripemd160.New()
		h.Write(s[:])
		push(h.Sum(nil))
	case bscript.OpHASH256:
		x := pop()
		if failed {
			return refErr
		}
		s := sha256.Sum256(x)
		s2 := sha256.Sum256(s[:])
		push(s2[:])
	default:
		// reserved, disabled, conditional-only and unknown opcodes are errors when executed here
		return refErr
	}
	if failed {
		return refErr
	}
	return refOK
}

func vrefHandled(op byte) bool {
	switch op {
	case bscript.OpIF, bscript.OpNOTIF, bscript.OpELSE, bscript.OpENDIF, bscript.OpVERIF, bscript.OpVERNOTIF,
		bscript.OpCHECKLOCKTIMEVERIFY, bscript.OpCHECKSEQUENCEVERIFY,
		bscript.OpCHECKSIG, bscript.OpCHECKSIGVERIFY, bscript.OpCHECKMULTISIG, bscript.OpCHECKMULTISIGVERIFY:
		return false
	}
	return true
}

func vclass(err error) int {
	if err == nil {
		return refOK
	}
	if errs.IsErrorCode(err, errs.ErrOK) {
		return refEarlyOK
	}
	return refErr
}

// C05-S2: every non-signature, non-conditional opcode on an executing branch: same verdict class
// and the same data / alt stacks as the reference.
func VH_C05_Opcode() {
	vunwindCut(vparam("U", 6))
	th, op, ok := vstepThread(vStepOpts{depth: vparam("D", 3), k: vparam("K", 2), adepth: vparam("A", 1), extra: vparam("X", 0), bigTop: vparam("BIGTOP", 0), executing: true})
	if !ok {
		return
	}
	vassume(vrefHandled(op))
	if vparam("ALIAS", 0) == 1 {
		// the state a copying opcode (DUP, OVER, PICK, TUCK ...) leaves behind: one operand (the top
		// one or the one below it) shares its storage with the first item below the operands
		n := len(th.dstack.stk)
		which := n - 1
		if varity(op) >= 2 && vnondetBool("alias-second") {
			which = n - 2
		}
		if j := n - 1 - varity(op); j >= 0 && j < which {
			th.dstack.stk[which] = th.dstack.stk[j]
		}
	}
	st := &refStacks{}
	for _, it := range th.dstack.stk {
		st.d = append(st.d, vcopy(it))
	}
	for _, it := range th.astack.stk {
		st.a = append(st.a, vcopy(it))
	}
	pop := th.scripts[1][0]
	var want int
	if op > bscript.Op16 && th.numOps+1 > th.cfg.MaxOps() {
		want = refErr
	} else {
		want = refExec(op, vcopy(pop.Data), th.afterGenesis, th.flags, st)
	}
	err := th.executeOpcode(pop)
	got := vclass(err)
	vassert(got == want, "C05: verdict class (ok / error / early success) equals the reference")
	if got == refOK && want == refOK {
		vassert(vstacksEq(th.dstack.stk, st.d), "C05: data stack equals the reference")
		vassert(vstacksEq(th.astack.stk, st.a), "C05: alt stack equals the reference")
		vreach("c05-ok")
	} else {
		vreach("c05-not-ok")
	}
}

// refLocktime: OP_CHECKLOCKTIMEVERIFY / OP_CHECKSEQUENCEVERIFY per the node (BIP65 / BIP112 as
// kept by BSV before Genesis; plain NOPs after Genesis or without their flag). The stack is never changed.
func refLocktime(op byte, after bool, flags scriptflag.Flag, st *refStacks, version, lockTime, seq uint32) int {
	flag := scriptflag.VerifyCheckLockTimeVerify
	if op == bscript.OpCHECKSEQUENCEVERIFY {
		flag = scriptflag.VerifyCheckSequenceVerify
	}
	if flags&flag == 0 || after {
		if flags&scriptflag.DiscourageUpgradableNops != 0 {
			return refErr
		}
		return refOK
	}
	if len(st.d) < 1 {
		return refErr
	}
	n, ok := refDecode(st.d[len(st.d)-1], 5, flags&scriptflag.VerifyMinimalData != 0)
	if !ok || n.Sign() < 0 {
		return refErr
	}
	v := n.Int64()
	if op == bscript.OpCHECKLOCKTIMEVERIFY {
		const threshold = 500000000
		tl := int64(lockTime)
		if !((tl < threshold && v < threshold) || (tl >= threshold && v >= threshold)) {
			return refErr
		}
		if v > tl || seq == 0xffffffff {
			return refErr
		}
		return refOK
	}
	if v&(1<<31) != 0 {
		return refOK
	}
	if version < 2 || seq&(1<<31) != 0 {
		return refErr
	}
	const typeFlag = int64(1 << 22)
	mask := typeFlag | 0xffff
	a, b := int64(seq)&mask, v&mask
	if !((a < typeFlag && b < typeFlag) || (a >= typeFlag && b >= typeFlag)) {
		return refErr
	}
	if b > a {
		return refErr
	}
	return refOK
}

// C05-S2b: the two lock-time opcodes with a transaction context (version, lock time and the input's
// sequence number symbolic; operand up to six bytes).
func VH_C05_Locktime() {
	th, op, ok := vstepThread(vStepOpts{depth: 2, k: 1, bigTop: 6, extra: 1, executing: true, withTx: true})
	if !ok {
		return
	}
	vassume(op == bscript.OpCHECKLOCKTIMEVERIFY || op == bscript.OpCHECKSEQUENCEVERIFY)
	st := &refStacks{}
	for _, it := range th.dstack.stk {
		st.d = append(st.d, vcopy(it))
	}
	var want int
	if th.numOps+1 > th.cfg.MaxOps() {
		want = refErr
	} else {
		want = refLocktime(op, th.afterGenesis, th.flags, st, th.tx.Version, th.tx.LockTime, th.tx.Inputs[0].SequenceNumber)
	}
	err := th.executeOpcode(th.scripts[1][0])
	got := vclass(err)
	vassert(got == want, "C05: lock-time opcode verdict equals the reference")
	if got == refOK {
		vassert(vstacksEq(th.dstack.stk, st.d), "C05: lock-time opcodes leave the stack unchanged")
		vreach("c05-locktime-ok")
	} else {
		vreach("c05-locktime-err")
	}
}

// ---- control flow reference (node semantics: a vector of executed/not-executed levels) ----

type refCtl struct {
	exec     []bool
	elseSeen []bool
	early    bool
}

func (c *refCtl) allTrue() bool {
	for _, e := range c.exec {
		if !e {
			return false
		}
	}
	return true
}

func refControl(op byte, data []byte, after bool, flags scriptflag.Flag, c *refCtl, st *refStacks, numOps, maxOps int) int {
	fExec := c.allTrue() && (!c.early || op == bscript.OpRETURN)
	if (op == bscript.Op2MUL || op == bscript.Op2DIV) && (!after || fExec) {
		return refErr
	}
	if (op == bscript.OpVERIF || op == bscript.OpVERNOTIF) && !after {
		return refErr
	}
	if op > bscript.Op16 && numOps+1 > maxOps {
		return refErr
	}
	switch op {
	case bscript.OpIF, bscript.OpNOTIF:
		v := false
		if fExec {
			if len(st.d) == 0 {
				return refErr
			}
			b := st.d[len(st.d)-1]
			st.d = st.d[:len(st.d)-1]
			if flags&scriptflag.VerifyMinimalIf != 0 {
				if len(b) > 1 || (len(b) == 1 && b[0] != 1) {
					return refErr
				}
			}
			v = refIsTrue(b)
			if op == bscript.OpNOTIF {
				v = !v
			}
		}
		c.exec = append(c.exec, v)
		c.elseSeen = append(c.elseSeen, false)
		return refOK
	case bscript.OpELSE:
		if len(c.exec) == 0 {
			return refErr
		}
		if after && c.elseSeen[len(c.elseSeen)-1] {
			return refErr
		}
		c.exec[len(c.exec)-1] = !c.exec[len(c.exec)-1]
		c.elseSeen[len(c.elseSeen)-1] = true
		return refOK
	case bscript.OpENDIF:
		if len(c.exec) == 0 {
			return refErr
		}
		c.exec = c.exec[:len(c.exec)-1]
		c.elseSeen = c.elseSeen[:len(c.elseSeen)-1]
		return refOK
	case bscript.OpVERIF, bscript.OpVERNOTIF:
		if fExec {
			return refErr
		}
		return refOK
	}
	if !fExec {
		return refOK
	}
	if op == bscript.OpRETURN && after && len(c.exec) > 0 {
		c.early = true
		return refOK
	}
	return refExec(op, data, after, flags, st)
}

// C05-S3: every non-signature opcode from an arbitrary conditional state (nested IFs, ELSE already
// seen or not, early return pending): verdict, conditional depth, whether the next instruction
// executes, and the stacks equal the reference.
func VH_C05_Control() {
	vunwindCut(vparam("U", 4))
	th, op, ok := vstepThread(vStepOpts{depth: vparam("D", 2), k: vparam("K", 1), adepth: 1, cdepth: vparam("C", 2)})
	if !ok {
		return
	}
	vassume(op != bscript.OpCHECKLOCKTIMEVERIFY && op != bscript.OpCHECKSEQUENCEVERIFY)
	// state invariant of the condition stack: below a not-taken level everything is "skip"
	ctl := &refCtl{early: th.earlyReturnAfterGenesis}
	dead := false
	for _, cv := range th.condStack {
		if dead {
			vassume(cv == opCondSkip)
		} else {
			vassume(cv != opCondSkip)
		}
		if cv != opCondTrue {
			dead = true
		}
		ctl.exec = append(ctl.exec, cv == opCondTrue)
	}
	if es, isStack := th.elseStack.(*stack); isStack {
		for _, e := range es.stk {
			ctl.elseSeen = append(ctl.elseSeen, asBool(e))
		}
	} else {
		for range th.condStack {
			ctl.elseSeen = append(ctl.elseSeen, false)
		}
	}
	st := &refStacks{}
	for _, it := range th.dstack.stk {
		st.d = append(st.d, vcopy(it))
	}
	for _, it := range th.astack.stk {
		st.a = append(st.a, vcopy(it))
	}
	pop := th.scripts[1][0]
	want := refControl(op, vcopy(pop.Data), th.afterGenesis, th.flags, ctl, st, th.numOps, th.cfg.MaxOps())
	got := vclass(th.executeOpcode(pop))
	vassert(got == want, "C05: control: verdict class equals the reference")
	if got == refOK && want == refOK {
		vassert(len(th.condStack) == len(ctl.exec), "C05: control: conditional nesting depth equals the reference")
		goExec := th.isBranchExecuting() && th.shouldExec(pop) && !th.earlyReturnAfterGenesis
		vassert(goExec == (ctl.allTrue() && !ctl.early), "C05: control: the next instruction executes exactly when the reference says")
		vassert(vstacksEq(th.dstack.stk, st.d) && vstacksEq(th.astack.stk, st.a), "C05: control: stacks equal the reference")
		vreach("c05-control-ok")
	}
}

// ---- whole executions: the node's VerifyScript / EvalScript loop over the step references ----

// refNextOp reads one instruction; ok=false on a truncated push.
func refNextOp(s []byte, i int) (op byte, data []byte, next int, ok bool) {
	op = s[i]
	hdr, n := 1, 0
	switch {
	case op >= 1 && op <= 75:
		n = int(op)
	case op == bscript.OpPUSHDATA1:
		if i+2 > len(s) {
			return op, nil, 0, false
		}
		hdr, n = 2, int(s[i+1])
	case op == bscript.OpPUSHDATA2:
		if i+3 > len(s) {
			return op, nil, 0, false
		}
		hdr, n = 3, int(s[i+1])|int(s[i+2])<<8
	case op == bscript.OpPUSHDATA4:
		if i+5 > len(s) {
			return op, nil, 0, false
		}
		hdr, n = 5, int(s[i+1])|int(s[i+2])<<8|int(s[i+3])<<16|int(s[i+4])<<24
	}
	if n > len(s)-i-hdr {
		return op, nil, 0, false
	}
	return op, s[i+hdr : i+hdr+n], i + hdr + n, true
}

// refEvalScript: EvalScript of the node for one script on the shared data stack.
func refEvalScript(s []byte, after bool, flags scriptflag.Flag, st *refStacks) int {
	if !after && len(s) > 10000 {
		return refErr // MAX_SCRIPT_SIZE before Genesis
	}
	ctl := &refCtl{}
	maxOps := 500
	if after {
		maxOps = 0x7fffffff
	}
	numOps := 0
	for i := 0; i < len(s); {
		op, data, next, ok := refNextOp(s, i)
		if !ok {
			return refErr
		}
		r := refControl(op, data, after, flags, ctl, st, numOps, maxOps)
		if op > bscript.Op16 {
			numOps++
		}
		if r == refErr {
			return refErr
		}
		if r == refEarlyOK {
			return refOK // post-Genesis top-level OP_RETURN ends this script successfully
		}
		i = next
	}
	if len(ctl.exec) != 0 {
		return refErr // unbalanced conditional
	}
	return refOK
}

// refScriptOK: every instruction is one the step references cover and the script is not the P2SH template.
func refScriptOK(s []byte) bool {
	for i := 0; i < len(s); {
		op, _, next, ok := refNextOp(s, i)
		if !ok {
			return true // truncated: an error in both worlds wherever it is found
		}
		if !vrefHandled(op) && !(op >= bscript.OpIF && op <= bscript.OpENDIF) {
			return false
		}
		i = next
	}
	return true
}

func refPushOnly(s []byte) bool {
	for i := 0; i < len(s); {
		op, _, next, ok := refNextOp(s, i)
		if !ok || op > bscript.Op16 {
			return false
		}
		i = next
	}
	return true
}

// refVerifyScript: VerifyScript of the node without the P2SH evaluation (scripts here are shorter
// than the P2SH template).
func refVerifyScript(us, ls []byte, flags scriptflag.Flag) int {
	after := flags&scriptflag.UTXOAfterGenesis != 0
	if flags&scriptflag.VerifySigPushOnly != 0 && !refPushOnly(us) {
		return refErr
	}
	st := &refStacks{}
	if refEvalScript(us, after, flags, st) != refOK {
		return refErr
	}
	st.a = nil // the alt stack does not survive a script
	if refEvalScript(ls, after, flags, st) != refOK {
		return refErr
	}
	if len(st.d) == 0 || !refIsTrue(st.d[len(st.d)-1]) {
		return refErr
	}
	if flags&scriptflag.VerifyCleanStack != 0 && len(st.d) != 1 {
		return refErr
	}
	return refOK
}

// vlongScript: a push-only script of exactly n bytes (n around the 10,000-byte limit): nineteen
// 520-byte pushes and one direct push, every byte 01.
func vlongScript(n int) []byte {
	var s []byte
	for i := 0; i < 19; i++ {
		s = append(s, bscript.OpPUSHDATA2, 0x08, 0x02)
		for j := 0; j < 520; j++ {
			s = append(s, 1)
		}
	}
	r := n - len(s) - 1
	s = append(s, byte(r))
	for j := 0; j < r; j++ {
		s = append(s, 1)
	}
	return s
}

var vC05FlagSets = []scriptflag.Flag{
	0,
	scriptflag.UTXOAfterGenesis,
	scriptflag.Bip16 | scriptflag.VerifyCleanStack | scriptflag.VerifyMinimalData | scriptflag.VerifyMinimalIf | scriptflag.DiscourageUpgradableNops,
	scriptflag.UTXOAfterGenesis | scriptflag.VerifyMinimalData | scriptflag.VerifySigPushOnly | scriptflag.VerifyMinimalIf,
	scriptflag.VerifySigPushOnly | scriptflag.VerifyCleanStack | scriptflag.Bip16,
	scriptflag.UTXOAfterGenesis | scriptflag.VerifyCleanStack | scriptflag.Bip16,
}

// C05-S4: whole executions through Engine.Execute on short script pairs: the verdict equals the
// node's VerifyScript built from the step references (script switching, alt-stack clearing,
// balanced conditionals per script, push-only unlocking scripts, final truth and clean-stack tests).
func VH_C05_Execute() {
	vunwindCut(vparam("U", 8))
	var usb []byte
	// kinds 9, 10 (early success with a non-empty alt stack) and the empty locking script: EARLY=1 (default; the
	// thorough tier keeps EARLY=0 until its longer head / tail shapes have been run clean with them)
	kind := vnondetLen("us-kind", 0, 10+2*vparam("LONG", 0))
	if vparam("EARLY", 1) == 0 {
		vassume(kind != 9 && kind != 10)
	}
	switch kind {
	case 11:
		usb = vlongScript(10000) // at the pre-Genesis script size limit
	case 12:
		usb = vlongScript(10001) // one byte over it
	case 9: // early success with something left on the alt stack: it must not reach the locking script
		usb = []byte{bscript.Op1, bscript.OpTOALTSTACK, bscript.OpRETURN}
	case 10:
		usb = []byte{bscript.Op1, bscript.Op1, bscript.OpTOALTSTACK, bscript.OpRETURN}
	case 1:
		usb = []byte{bscript.Op1}
	case 2:
		usb = []byte{bscript.Op0}
	case 3:
		usb = append([]byte{2}, vnondetBytes("us-data", 2, 2)...)
	case 4:
		usb = []byte{bscript.Op1, bscript.Op1}
	case 5:
		usb = []byte{bscript.Op1, bscript.OpTOALTSTACK}
	case 6:
		usb = []byte{bscript.OpNOP}
	case 7:
		usb = []byte{bscript.Op1, bscript.OpIF}
	case 8:
		usb = []byte{bscript.Op1, bscript.OpRETURN}
	}
	// locking script: optional concrete head, L symbolic bytes, optional concrete tail
	var lsb []byte
	if vparam("HEAD", 0) == 1 {
		lsb = append(lsb, [][]byte{{}, {bscript.Op1}, {bscript.Op0, bscript.OpIF}, {bscript.Op1, bscript.OpIF}, {bscript.OpDUP}}[vnondetLen("ls-head", 0, 4)]...)
	}
	if vparam("LONG", 0) == 1 && vnondetBool("ls-long") {
		lsb = vlongScript(10000 + vnondetLen("ls-over", 0, 1))
	} else {
		lsb = append(lsb, vnondetBytes("ls", 1-vparam("EARLY", 1), vparam("L", 1))...) // incl. the empty locking script (EARLY=1)
	}
	if vparam("TAIL", 0) == 1 {
		lsb = append(lsb, [][]byte{{}, {bscript.Op1}, {bscript.OpDROP}, {bscript.OpENDIF}, {bscript.OpELSE, bscript.Op1, bscript.OpENDIF}, {bscript.OpVERIFY}, {bscript.OpRETURN}, {bscript.OpFROMALTSTACK}, {bscript.OpEQUAL}, {bscript.OpADD}}[vnondetLen("ls-tail", 0, 9)]...)
	}
	vassume(refScriptOK(lsb))
	flags := vC05FlagSets[vnondetLen("flagset", 0, len(vC05FlagSets)-1)]
	want := refVerifyScript(vcopy(usb), vcopy(lsb), flags)
	us, ls := bscript.Script(usb), bscript.Script(lsb)
	err := NewEngine().Execute(WithScripts(&ls, &us), WithFlags(flags))
	got := refOK
	if err != nil {
		got = refErr
	}
	vassert(got == want, "C05: Execute verdict equals the reference VerifyScript")
	if got == refOK {
		vreach("c05-exec-accept")
	} else {
		vreach("c05-exec-reject")
	}
}
