package bt

import "crypto/sha256"

// sha256dRef: double SHA-256 through the standard library (an independent route to the same function).
func sha256dRef(b []byte) []byte {
	h1 := sha256.Sum256(b)
	h2 := sha256.Sum256(h1[:])
	return h2[:]
}
