package main

import (
	"fmt"
	"go/token"
	"go/types"
	"math"
	"math/big"
	"unicode/utf8"

	"golang.org/x/tools/go/ssa"
)

func (in *Interp) fpConst(f float64) *Term {
	if in.cfg != nil && in.cfg.FPReal {
		return in.realConst(new(big.Rat).SetFloat64(f))
	}
	return in.tb.mk(&Term{Op: OConst, S: SFP, C: math.Float64bits(f)})
}

// ---- real-number abstraction of float64 (sound over-approximation): every IEEE operation
// returns a fresh real r with |r - exact| <= |exact| * 2^-53; conversions to integers are
// floor / round of that real. Only `unsat` answers are meaningful in this mode.
func (in *Interp) realConst(r *big.Rat) *Term {
	txt := "(/ " + r.Num().String() + ".0 " + r.Denom().String() + ".0)"
	if r.Sign() < 0 {
		txt = "(- (/ " + new(big.Int).Neg(r.Num()).String() + ".0 " + r.Denom().String() + ".0))"
	}
	return in.tb.FP(txt, SReal)
}

func (in *Interp) realRounded(exact *Term) *Term {
	tb := in.tb
	r := in.freshSym("fp", SReal)
	u := in.tb.FP("(/ 1.0 9007199254740992.0)", SReal)
	zero := in.tb.FP("0.0", SReal)
	abs := tb.Ite(tb.FP("<", SBool, exact, zero), tb.FP("-", SReal, exact), exact)
	slack := tb.FP("*", SReal, u, abs)
	in.addPC(tb.FP("<=", SBool, tb.FP("-", SReal, exact, slack), r))
	in.addPC(tb.FP("<=", SBool, r, tb.FP("+", SReal, exact, slack)))
	return r
}

func (in *Interp) realOfInt(x *Term, signed bool) *Term {
	if x.S.K != KInt {
		n := in.tb.BV2Nat(x)
		if signed {
			n = in.fromBV64(in.tb.Sext(x, 64), true)
		}
		x = n
	}
	return in.tb.FP("to_real", SReal, x)
}

// realToInt: truncation toward zero (trunc=true) or round-half-away (trunc=false) of a non-negative or
// negative real into a fresh integer.
func (in *Interp) realToInt(r *Term, trunc bool) *Term {
	tb := in.tb
	k := in.freshSym("fpint", SInt)
	kr := tb.FP("to_real", SReal, k)
	one := tb.FP("1.0", SReal)
	zero := tb.FP("0.0", SReal)
	half := tb.FP("0.5", SReal)
	nonneg := tb.FP("<=", SBool, zero, r)
	var pos, neg *Term
	if trunc {
		pos = tb.And(tb.FP("<=", SBool, kr, r), tb.FP("<", SBool, r, tb.FP("+", SReal, kr, one)))
		neg = tb.And(tb.FP("<", SBool, tb.FP("-", SReal, kr, one), r), tb.FP("<=", SBool, r, kr))
	} else {
		rp := tb.FP("+", SReal, r, half)
		rm := tb.FP("-", SReal, r, half)
		pos = tb.And(tb.FP("<=", SBool, kr, rp), tb.FP("<", SBool, rp, tb.FP("+", SReal, kr, one)))
		neg = tb.And(tb.FP("<", SBool, tb.FP("-", SReal, kr, one), rm), tb.FP("<=", SBool, rm, kr))
	}
	in.addPC(tb.Ite(nonneg, pos, neg))
	return k
}

func (in *Interp) unop(fr *frame, instr *ssa.UnOp, x Value) Value {
	tb := in.tb
	switch instr.Op {
	case token.MUL: // load
		return in.load(fr, x)
	case token.NOT:
		return tb.Not(x.(*Term))
	case token.SUB:
		t := x.(*Term)
		if t.S.K == KReal {
			return tb.FP("-", SReal, t)
		}
		if t.S.K == KFP {
			if t.IsConst() {
				return in.fpConst(-math.Float64frombits(t.C))
			}
			return tb.FP("fp.neg", SFP, t)
		}
		if t.S.K == KInt {
			return in.intNeg(t, instr.X.Type())
		}
		return tb.Neg(t)
	case token.XOR:
		if xt := x.(*Term); xt.S.K == KInt {
			return in.fromBV64(tb.BNot(in.toBV64(xt)), isSigned(instr.X.Type()))
		}
		return tb.BNot(x.(*Term))
	case token.ARROW:
		panic(engineAbort{"channel receive not supported"})
	}
	panic(engineAbort{fmt.Sprintf("unsupported unop %v", instr.Op)})
}

func (in *Interp) strConcat(a, b Str) Str {
	if a.Opaque || b.Opaque {
		return Str{S: "<opaque>", Opaque: true}
	}
	if a.B == nil && b.B == nil {
		return Str{S: a.S + b.S}
	}
	if a.Len() == 0 {
		return b
	}
	if b.Len() == 0 {
		return a
	}
	var r []*Term
	for _, v := range in.strBytes(a) {
		r = append(r, v.(*Term))
	}
	for _, v := range in.strBytes(b) {
		r = append(r, v.(*Term))
	}
	return Str{B: r}
}

func (in *Interp) strEq(a, b Str) *Term {
	tb := in.tb
	if a.B58 != nil && b.B58 != nil {
		// base58 is injective: the texts are equal iff the payloads are
		return in.bytesEq(Slice{A: a.B58}, Slice{A: b.B58})
	}
	if a.Opaque || b.Opaque {
		panic(engineAbort{"comparison of opaque string"})
	}
	if a.Len() != b.Len() {
		return tb.False
	}
	if a.B == nil && b.B == nil {
		return tb.Bool(a.S == b.S)
	}
	ab, bb := in.strBytes(a), in.strBytes(b)
	res := tb.True
	for i := range ab {
		res = tb.And(res, tb.Eq(ab[i].(*Term), bb[i].(*Term)))
	}
	return res
}

// equals implements == on arbitrary values.
func (in *Interp) equals(fr *frame, t types.Type, x, y Value) *Term {
	tb := in.tb
	switch x := x.(type) {
	case *Term:
		yt := y.(*Term)
		if x.S.K == KReal {
			return tb.FP("=", SBool, x, yt)
		}
		if x.S.K == KFP {
			if x.IsConst() && yt.IsConst() {
				return tb.Bool(math.Float64frombits(x.C) == math.Float64frombits(yt.C))
			}
			return tb.FP("fp.eq", SBool, x, yt)
		}
		return tb.Eq(x, yt)
	case Str:
		return in.strEq(x, y.(Str))
	case *Value:
		yp, ok := y.(*Value)
		if !ok {
			return tb.False
		}
		return tb.Bool(x == yp)
	case SymRef:
		panic(engineAbort{"comparison of symbolic-index pointers"})
	case Struct:
		ys := y.(Struct)
		res := tb.True
		st, _ := t.Underlying().(*types.Struct)
		for i := range x {
			var ft types.Type
			if st != nil {
				if st.Field(i).Name() == "_" {
					continue
				}
				ft = st.Field(i).Type()
			}
			res = tb.And(res, in.equals(fr, ft, x[i], ys[i]))
		}
		return res
	case Array:
		ya := y.(Array)
		res := tb.True
		var et types.Type
		if at, ok := t.Underlying().(*types.Array); ok {
			et = at.Elem()
		}
		for i := range x {
			res = tb.And(res, in.equals(fr, et, x[i], ya[i]))
		}
		return res
	case Iface:
		yi := y.(Iface)
		if x.T == nil || yi.T == nil {
			return tb.Bool(x.T == nil && yi.T == nil)
		}
		if !types.Identical(x.T, yi.T) {
			return tb.False
		}
		if !types.Comparable(x.T) {
			fr.fault(tb.False, "uncomparable-iface")
		}
		return in.equals(fr, x.T, x.V, yi.V)
	case Slice:
		// only comparison with nil is legal
		ys := y.(Slice)
		if ys.A == nil {
			return tb.Bool(x.A == nil)
		}
		if x.A == nil {
			return tb.Bool(ys.A == nil)
		}
		panic(engineAbort{"slice comparison"})
	case *Map:
		ym := y.(*Map)
		return tb.Bool(x == ym)
	case *ssa.Function:
		switch yf := y.(type) {
		case *ssa.Function:
			return tb.Bool(x == yf)
		case *Closure:
			return tb.Bool(x == nil && yf == nil)
		}
		return tb.False
	case *Closure:
		switch yf := y.(type) {
		case *ssa.Function:
			return tb.Bool(x == nil && yf == nil)
		case *Closure:
			return tb.Bool(x == yf)
		}
		return tb.False
	case *Opaque:
		yo, _ := y.(*Opaque)
		return tb.Bool(x == yo)
	case *ssa.Builtin:
		return tb.False
	}
	panic(engineAbort{fmt.Sprintf("equals: unsupported %T", x)})
}

func (in *Interp) binop(fr *frame, op token.Token, t types.Type, x, y Value, yt types.Type) Value {
	tb := in.tb
	switch op {
	case token.EQL:
		return in.equals(fr, t, x, y)
	case token.NEQ:
		return tb.Not(in.equals(fr, t, x, y))
	}
	if xs, ok := x.(Str); ok {
		ys := y.(Str)
		switch op {
		case token.ADD:
			return in.strConcat(xs, ys)
		case token.LSS, token.LEQ, token.GTR, token.GEQ:
			if xs.IsConcrete() && ys.IsConcrete() {
				a, b := xs.Concrete(), ys.Concrete()
				switch op {
				case token.LSS:
					return tb.Bool(a < b)
				case token.LEQ:
					return tb.Bool(a <= b)
				case token.GTR:
					return tb.Bool(a > b)
				case token.GEQ:
					return tb.Bool(a >= b)
				}
			}
			panic(engineAbort{"ordered comparison of symbolic strings"})
		}
	}
	a, ok1 := x.(*Term)
	b, ok2 := y.(*Term)
	if !ok1 || !ok2 {
		panic(engineAbort{fmt.Sprintf("binop %v on %T,%T", op, x, y)})
	}
	if a.S.K == KFP || a.S.K == KReal {
		return in.fpBin(op, a, b)
	}
	if a.S.K == KBool {
		switch op {
		case token.AND, token.LAND:
			return tb.And(a, b)
		case token.OR, token.LOR:
			return tb.Or(a, b)
		}
		panic(engineAbort{fmt.Sprintf("bool binop %v", op)})
	}
	signed := isSigned(t)
	if a.S.K == KInt {
		return in.intBin(fr, op, t, a, b, yt)
	}
	if b.S.K == KInt && (op == token.SHL || op == token.SHR) {
		// narrow operand shifted by a wide (Int) count
		if b.IsConst() {
			b = tb.BVConst(64, uint64(termInt64(b, false)))
		} else {
			b = tb.Int2BV(b, 64)
		}
	}
	switch op {
	case token.ADD:
		return tb.Bin(OAdd, a, b)
	case token.SUB:
		return tb.Bin(OSub, a, b)
	case token.MUL:
		return tb.Bin(OMul, a, b)
	case token.QUO, token.REM:
		fr.fault(tb.Not(tb.Eq(b, tb.zeroOf(b.S))), "div-zero")
		if signed {
			if op == token.QUO {
				return tb.Bin(OSdiv, a, b)
			}
			return tb.Bin(OSrem, a, b)
		}
		if op == token.QUO {
			return tb.Bin(OUdiv, a, b)
		}
		return tb.Bin(OUrem, a, b)
	case token.AND:
		return tb.Bin(OBand, a, b)
	case token.OR:
		return tb.Bin(OBor, a, b)
	case token.XOR:
		return tb.Bin(OBxor, a, b)
	case token.AND_NOT:
		return tb.Bin(OBand, a, tb.BNot(b))
	case token.SHL, token.SHR:
		// shift count: if signed and negative -> panic
		if isSigned(yt) {
			fr.fault(tb.Not(tb.Cmp(OSlt, b, tb.zeroOf(b.S))), "negative-shift")
		}
		w := int(a.S.W)
		// normalise count to width w, saturating
		var cnt *Term
		bw := int(b.S.W)
		if bw == w {
			cnt = b
		} else if bw < w {
			cnt = tb.Zext(b, w)
		} else {
			// count wider than operand: saturate
			big := tb.Cmp(OUle, tb.BVConst(bw, uint64(w)), b)
			cnt = tb.Ite(big, tb.BVConst(w, uint64(w)), tb.Extract(b, w-1, 0))
		}
		if op == token.SHL {
			return tb.Bin(OShl, a, cnt)
		}
		if signed {
			return tb.Bin(OAshr, a, cnt)
		}
		return tb.Bin(OLshr, a, cnt)
	case token.LSS:
		if signed {
			return tb.Cmp(OSlt, a, b)
		}
		return tb.Cmp(OUlt, a, b)
	case token.LEQ:
		if signed {
			return tb.Cmp(OSle, a, b)
		}
		return tb.Cmp(OUle, a, b)
	case token.GTR:
		if signed {
			return tb.Cmp(OSlt, b, a)
		}
		return tb.Cmp(OUlt, b, a)
	case token.GEQ:
		if signed {
			return tb.Cmp(OSle, b, a)
		}
		return tb.Cmp(OUle, b, a)
	}
	panic(engineAbort{fmt.Sprintf("unsupported binop %v", op)})
}

func (in *Interp) fpBin(op token.Token, a, b *Term) Value {
	tb := in.tb
	if a.S.K == KReal {
		switch op {
		case token.ADD:
			return in.realRounded(tb.FP("+", SReal, a, b))
		case token.SUB:
			return in.realRounded(tb.FP("-", SReal, a, b))
		case token.MUL:
			return in.realRounded(tb.FP("*", SReal, a, b))
		case token.QUO:
			return in.realRounded(tb.FP("/", SReal, a, b))
		case token.LSS:
			return tb.FP("<", SBool, a, b)
		case token.LEQ:
			return tb.FP("<=", SBool, a, b)
		case token.GTR:
			return tb.FP("<", SBool, b, a)
		case token.GEQ:
			return tb.FP("<=", SBool, b, a)
		}
		panic(engineAbort{"real-abstraction: unsupported float operator"})
	}
	if a.IsConst() && b.IsConst() {
		x, y := math.Float64frombits(a.C), math.Float64frombits(b.C)
		switch op {
		case token.ADD:
			return in.fpConst(x + y)
		case token.SUB:
			return in.fpConst(x - y)
		case token.MUL:
			return in.fpConst(x * y)
		case token.QUO:
			return in.fpConst(x / y)
		case token.LSS:
			return tb.Bool(x < y)
		case token.LEQ:
			return tb.Bool(x <= y)
		case token.GTR:
			return tb.Bool(x > y)
		case token.GEQ:
			return tb.Bool(x >= y)
		}
	}
	switch op {
	case token.ADD:
		return tb.FP("fp.add RNE", SFP, a, b)
	case token.SUB:
		return tb.FP("fp.sub RNE", SFP, a, b)
	case token.MUL:
		return tb.FP("fp.mul RNE", SFP, a, b)
	case token.QUO:
		return tb.FP("fp.div RNE", SFP, a, b)
	case token.LSS:
		return tb.FP("fp.lt", SBool, a, b)
	case token.LEQ:
		return tb.FP("fp.leq", SBool, a, b)
	case token.GTR:
		return tb.FP("fp.gt", SBool, a, b)
	case token.GEQ:
		return tb.FP("fp.geq", SBool, a, b)
	}
	panic(engineAbort{fmt.Sprintf("unsupported float binop %v", op)})
}

func (in *Interp) conv(fr *frame, dst, src types.Type, x Value) Value {
	tb := in.tb
	ud, us := dst.Underlying(), src.Underlying()
	// pointer <-> unsafe.Pointer
	if _, ok := x.(*Value); ok {
		return x
	}
	switch us := us.(type) {
	case *types.Slice:
		// []byte / []rune -> string
		s := x.(Slice)
		if b, ok := us.Elem().Underlying().(*types.Basic); ok && b.Kind() == types.Uint8 {
			if _, ok := ud.(*types.Basic); ok {
				bs := make([]*Term, len(s.A))
				conc := true
				for i, c := range s.A {
					bs[i] = c.(*Term)
					if !bs[i].IsConst() {
						conc = false
					}
				}
				if conc {
					raw := make([]byte, len(bs))
					for i, c := range bs {
						raw[i] = byte(c.C)
					}
					return Str{S: string(raw)}
				}
				return Str{B: bs}
			}
		}
		if _, ok := ud.(*types.Slice); ok {
			return x
		}
		panic(engineAbort{fmt.Sprintf("conv from %v to %v", src, dst)})
	case *types.Basic:
		if us.Info()&types.IsString != 0 {
			s := x.(Str)
			if sl, ok := ud.(*types.Slice); ok {
				if b, ok := sl.Elem().Underlying().(*types.Basic); ok && b.Kind() == types.Uint8 {
					cells := in.strBytes(s)
					if cells == nil {
						cells = []Value{}
					}
					return Slice{A: cells}
				}
				if !s.IsConcrete() {
					panic(engineAbort{"[]rune of symbolic string"})
				}
				var cells []Value = []Value{}
				for _, r := range s.Concrete() {
					cells = append(cells, tb.BVConst(32, uint64(r)))
				}
				return Slice{A: cells}
			}
			return x // string -> string (named)
		}
		xt := x.(*Term)
		if db, ok := ud.(*types.Basic); ok {
			if db.Info()&types.IsString != 0 {
				// integer -> string (rune)
				if !xt.IsConst() {
					panic(engineAbort{"string(rune) of symbolic value"})
				}
				rv := termInt64(xt, true)
				r := rune(rv)
				if rv < 0 || rv > utf8.MaxRune {
					r = utf8.RuneError
				}
				return Str{S: string(r)}
			}
			ds, _, ok1 := basicSort(db)
			ss, ssigned, ok2 := basicSort(us)
			if !ok1 || !ok2 {
				panic(engineAbort{fmt.Sprintf("conv %v -> %v", src, dst)})
			}
			switch {
			case ds.K == KBV && ss.K == KBV:
				if in.intMode && (is64(us) || is64(db)) {
					return in.intConvWide(xt, us, db)
				}
				if ds.W <= ss.W {
					return tb.Extract(xt, int(ds.W)-1, 0)
				}
				if ssigned {
					return tb.Sext(xt, int(ds.W))
				}
				return tb.Zext(xt, int(ds.W))
			case ds.K == KFP && ss.K == KFP:
				return xt
			case ds.K == KFP && ss.K == KBV:
				if in.cfg.FPReal {
					// exact below 2^53, rounded above
					ex := in.realOfInt(xt, ssigned)
					if iv, ok := in.ivalOf(xt); ok && iv.hi.Cmp(pow2(53)) <= 0 && iv.lo.Cmp(new(big.Int).Neg(pow2(53))) >= 0 {
						return ex
					}
					return in.realRounded(ex)
				}
				if xt.S.K == KInt {
					xt = in.toBV64(xt)
				}
				if xt.IsConst() {
					if ssigned {
						return in.fpConst(float64(toSigned(xt.C, xt.S.W)))
					}
					return in.fpConst(float64(xt.C))
				}
				if ssigned {
					return tb.FP("(_ to_fp 11 53) RNE", SFP, xt)
				}
				return tb.FP("(_ to_fp_unsigned 11 53) RNE", SFP, xt)
			case ds.K == KBV && ss.K == KFP:
				_, dsigned, _ := basicSort(db)
				if xt.S.K == KReal {
					k := in.realToInt(xt, true)
					tr := typeRange(dst)
					if ds.W < 64 {
						panic(engineAbort{"real-abstraction: float to narrow integer"})
					}
					// out-of-range conversions are implementation-defined in Go: assume in range (recorded)
					in.cuts["float->integer conversions assumed in range of the target type (real abstraction)"] = true
					in.addPC(tb.And(tb.IBin(OILe, tb.IntConst(tr.lo), k), tb.IBin(OILe, k, tb.IntConst(tr.hi))))
					in.setIval(k, tr)
					if in.intMode {
						return k
					}
					return tb.Int2BV(k, 64)
				}
				if xt.IsConst() {
					f := math.Float64frombits(xt.C)
					if dsigned {
						return tb.BVConst(int(ds.W), uint64(int64(f)))
					}
					return tb.BVConst(int(ds.W), uint64(f))
				}
				var r *Term
				if dsigned {
					r = tb.FP(fmt.Sprintf("(_ fp.to_sbv %d) RTZ", ds.W), ds, xt)
				} else {
					r = tb.FP(fmt.Sprintf("(_ fp.to_ubv %d) RTZ", ds.W), ds, xt)
				}
				if in.intMode && is64(db) {
					return in.fromBV64(r, dsigned)
				}
				return r
			case ds.K == KBool && ss.K == KBool:
				return xt
			}
		}
	}
	panic(engineAbort{fmt.Sprintf("unsupported conversion %v -> %v (%T)", src, dst, x)})
}
