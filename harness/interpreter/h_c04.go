package interpreter

import (
	"context"

	"github.com/libsv/go-bk/bec"
	"github.com/libsv/go-bk/crypto"
	"github.com/libsv/go-bt/v2"
	"github.com/libsv/go-bt/v2/bscript"
	"github.com/libsv/go-bt/v2/sighash"
	"github.com/libsv/go-bt/v2/unlocker"
)

func vp2pkhFor(pub []byte) *bscript.Script {
	s := bscript.Script{bscript.OpDUP, bscript.OpHASH160, bscript.OpDATA20}
	s = append(s, crypto.Hash160(pub)...)
	s = append(s, bscript.OpEQUALVERIFY, bscript.OpCHECKSIG)
	return &s
}

var vStdTypes = []sighash.Flag{sighash.All, sighash.None, sighash.Single, sighash.All | sighash.AnyOneCanPay, sighash.None | sighash.AnyOneCanPay, sighash.Single | sighash.AnyOneCanPay}

// vsignedTx: a transaction whose input idx spends a P2PKH output of key k and is signed through
// the library's signing path with hash type ht.
func vsignedTx(maxIn, maxOut int, inscription bool) (tx *bt.Tx, idx int, prev *bt.Output, ht sighash.Flag, forkid bool) {
	vtrailerSep = false
	kb := vnondetBytes("privkey", 32, 32)
	vassume(kb[0] >= 1 && kb[0] <= 0x7f) // a valid secp256k1 scalar
	priv, _ := bec.PrivKeyFromBytes(bec.S256(), kb)
	pub := priv.PubKey().SerialiseCompressed()
	lock := vp2pkhFor(pub)
	if inscription {
		s := append(bscript.Script{}, *lock...)
		s = append(s, bscript.OpFALSE, bscript.OpIF, 3, 0x6f, 0x72, 0x64, bscript.OpTRUE, 1)
		s = append(s, vnondetBytes("ctype", 1, 1)...)
		s = append(s, bscript.OpFALSE, 1)
		s = append(s, vnondetBytes("idata", 1, 1)...)
		s = append(s, bscript.OpENDIF)
		if vparamAfterGenesis && vnondetBool("opreturn-trailer") {
			// extra data behind a top-level OP_RETURN (what Inscribe appends for OpReturnData); part of the script code
			s = append(s, bscript.OpRETURN)
			tr := vnondetBytes("trailer", 0, 3)
			vtrailerSep = len(tr) > 0 && tr[0] == bscript.OpCODESEPARATOR
			s = append(s, tr...)
		}
		lock = &s
	}
	tx = &bt.Tx{Version: vnondetU32("version"), LockTime: vnondetU32("locktime")}
	nIn := vnondetLen("nin", 1, maxIn)
	nOut := vnondetLen("nout", 0, maxOut)
	idx = vnondetLen("idx", 0, nIn-1)
	for i := 0; i < nIn; i++ {
		in := &bt.Input{PreviousTxOutIndex: vnondetU32("vout"), SequenceNumber: vnondetU32("seq")}
		_ = in.PreviousTxIDAdd(vnondetBytes("txid", 32, 32))
		tx.Inputs = append(tx.Inputs, in)
	}
	for i := 0; i < nOut; i++ {
		ls := bscript.Script(vnondetBytes("outscript", 0, 1))
		tx.Outputs = append(tx.Outputs, &bt.Output{Satoshis: vnondetU64("outsats"), LockingScript: &ls})
	}
	prev = &bt.Output{Satoshis: vnondetU64("spent-sats"), LockingScript: lock}
	tx.Inputs[idx].PreviousTxScript = lock
	tx.Inputs[idx].PreviousTxSatoshis = prev.Satoshis
	forkid = vnondetBool("forkid")
	ht = vStdTypes[vnondetLen("hashtype", 0, 5)]
	if forkid {
		ht |= sighash.ForkID
	}
	err := tx.FillInput(context.Background(), &unlocker.Simple{PrivateKey: priv}, bt.UnlockerParams{InputIdx: uint32(idx), SigHashFlags: ht})
	vassume(err == nil)
	return
}

func vverify(tx *bt.Tx, idx int, prev *bt.Output, forkid bool) error {
	opts := []ExecutionOptionFunc{WithTx(tx, idx, prev)}
	if forkid {
		opts = append(opts, WithForkID())
	}
	if vparamAfterGenesis {
		opts = append(opts, WithAfterGenesis())
	}
	return NewEngine().Execute(opts...)
}

var vparamAfterGenesis bool
var vtrailerSep bool

// C04-A: every input signed through the library is accepted by the interpreter.
func VH_C04_Accept() {
	vparamAfterGenesis = vnondetBool("aftergenesis")
	tx, idx, prev, _, forkid := vsignedTx(vparam("IN", 2), vparam("OUT", 2), vparam("INSC", 0) == 1)
	before := tx.Bytes()
	err := vverify(tx, idx, prev, forkid)
	if vtrailerSep && !forkid {
		// its own label: the parser keeps the bytes behind a top-level OP_RETURN as one blob named after
		// their first byte, and the legacy script code drops every OP_CODESEPARATOR "opcode"
		vassert(err == nil, "C04: library-made legacy signature verifies (OP_RETURN trailer starting with byte ab)")
	} else {
		vassert(err == nil, "C04: library-made signature verifies")
	}
	vassert(vbytesEq(tx.Bytes(), before), "C08: verification leaves the transaction serialisation unchanged")
	if forkid {
		vreach("c04-accept-forkid")
	} else {
		vreach("c04-accept-legacy")
	}
}

// C04-A2: every input of a transaction signed one after the other through the library (each with
// its own hash type; or all at once through FillAllInputs) is accepted afterwards - signing a later
// input must not disturb what an earlier signature committed to - and signing changes nothing but
// the unlocking scripts.
func VH_C04_AcceptAll() {
	vparamAfterGenesis = vnondetBool("aftergenesis")
	kb := vnondetBytes("privkey", 32, 32)
	vassume(kb[0] >= 1 && kb[0] <= 0x7f)
	priv, _ := bec.PrivKeyFromBytes(bec.S256(), kb)
	lock := vp2pkhFor(priv.PubKey().SerialiseCompressed())
	tx := &bt.Tx{Version: vnondetU32("version"), LockTime: vnondetU32("locktime")}
	nIn := vnondetLen("nin", 2, vparam("IN", 2))
	nOut := vnondetLen("nout", 0, vparam("OUT", 2))
	var prevs []*bt.Output
	for i := 0; i < nIn; i++ {
		in := &bt.Input{PreviousTxOutIndex: vnondetU32("vout"), SequenceNumber: vnondetU32("seq")}
		_ = in.PreviousTxIDAdd(vnondetBytes("txid", 32, 32))
		p := &bt.Output{Satoshis: vnondetU64("spent-sats"), LockingScript: lock}
		in.PreviousTxScript, in.PreviousTxSatoshis = lock, p.Satoshis
		prevs = append(prevs, p)
		tx.Inputs = append(tx.Inputs, in)
	}
	for i := 0; i < nOut; i++ {
		ls := bscript.Script(vnondetBytes("outscript", 0, 1))
		tx.Outputs = append(tx.Outputs, &bt.Output{Satoshis: vnondetU64("outsats"), LockingScript: &ls})
	}
	cleared := tx.Bytes() // no input carries an unlocking script yet
	forkid := vnondetBool("forkid")
	if forkid && vnondetBool("fill-all") {
		err := tx.FillAllInputs(context.Background(), &unlocker.Getter{PrivateKey: priv})
		vassume(err == nil)
		vreach("c04-all-fillall")
	} else {
		for i := 0; i < nIn; i++ {
			ht := vStdTypes[vnondetLen("hashtype", 0, 5)]
			if forkid {
				ht |= sighash.ForkID
			}
			err := tx.FillInput(context.Background(), &unlocker.Simple{PrivateKey: priv}, bt.UnlockerParams{InputIdx: uint32(i), SigHashFlags: ht})
			vassume(err == nil)
		}
		vreach("c04-all-sequential")
	}
	// signing touched nothing but the unlocking scripts
	ok := len(tx.Inputs) == nIn && len(tx.Outputs) == nOut
	if ok {
		stripped := tx.Clone()
		for _, in := range stripped.Inputs {
			in.UnlockingScript = &bscript.Script{}
		}
		ok = vbytesEq(stripped.Bytes(), cleared)
	}
	vassert(ok, "C04: signing changes nothing but the unlocking scripts")
	for i := 0; i < nIn; i++ {
		err := vverify(tx, i, prevs[i], forkid)
		vassert(err == nil, "C04: every input signed one after the other verifies")
	}
}

// refCommitted: does a signature with this hash type commit to the mutated part?
// (derived from the two digest specifications; base is the hash type & 0x1f)
func refCommitted(class int, base sighash.Flag, acp, forkid bool, idx, nOut, j int) bool {
	if !forkid && base == sighash.Single && idx >= nOut {
		// the legacy SINGLE bug: the digest is the constant 1 and commits to nothing - until an
		// appended output brings the index back into range
		return class == 8 && idx == nOut
	}
	switch class {
	case 0, 1, 2, 3, 12: // version, locktime, own outpoint, own sequence, spent script
		return true
	case 4: // another input's outpoint
		return !acp
	case 5: // another input's sequence
		return !acp && base == sighash.All
	case 6, 7: // value / script of output j
		return base == sighash.All || (base == sighash.Single && j == idx)
	case 8: // an output appended at index nOut
		return base == sighash.All || (base == sighash.Single && idx == nOut)
	case 9: // the last output (index nOut-1) removed
		return base == sighash.All || (base == sighash.Single && idx == nOut-1)
	case 10: // an input appended
		return !acp
	case 11: // spent value
		return forkid
	}
	return true
}

// C04-B: after signing, a change to a committed part invalidates the signature and a change to
// an uncommitted part does not.
func VH_C04_Commit() {
	vparamAfterGenesis = false
	tx, idx, prev, ht, forkid := vsignedTx(vparam("IN", 2), vparam("OUT", 2), false)
	base := ht & 0x1f
	acp := ht&sighash.AnyOneCanPay != 0
	nIn, nOut := len(tx.Inputs), len(tx.Outputs)
	class := vnondetLen("class", 0, 12)
	j := 0
	switch class {
	case 0:
		v := vnondetU32("new-version")
		vassume(v != tx.Version)
		tx.Version = v
	case 1:
		v := vnondetU32("new-locktime")
		vassume(v != tx.LockTime)
		tx.LockTime = v
	case 2:
		v := vnondetU32("new-vout")
		vassume(v != tx.Inputs[idx].PreviousTxOutIndex)
		tx.Inputs[idx].PreviousTxOutIndex = v
	case 3:
		v := vnondetU32("new-seq")
		vassume(v != tx.Inputs[idx].SequenceNumber)
		tx.Inputs[idx].SequenceNumber = v
	case 4, 5:
		vassume(nIn >= 2)
		k := 1 - idx
		if class == 4 {
			v := vnondetU32("new-other-vout")
			vassume(v != tx.Inputs[k].PreviousTxOutIndex)
			tx.Inputs[k].PreviousTxOutIndex = v
		} else {
			v := vnondetU32("new-other-seq")
			vassume(v != tx.Inputs[k].SequenceNumber)
			tx.Inputs[k].SequenceNumber = v
		}
	case 6, 7:
		vassume(nOut >= 1)
		j = vnondetLen("out-j", 0, nOut-1)
		if class == 6 {
			v := vnondetU64("new-out-sats")
			vassume(v != tx.Outputs[j].Satoshis)
			tx.Outputs[j].Satoshis = v
		} else {
			s := append(bscript.Script{}, *tx.Outputs[j].LockingScript...)
			s = append(s, vnondetU8("extra-script-byte"))
			tx.Outputs[j].LockingScript = &s
		}
	case 8:
		ls := bscript.Script(vnondetBytes("added-outscript", 0, 1))
		tx.Outputs = append(tx.Outputs, &bt.Output{Satoshis: vnondetU64("added-sats"), LockingScript: &ls})
	case 9:
		vassume(nOut >= 1)
		tx.Outputs = tx.Outputs[:nOut-1]
	case 10:
		in := &bt.Input{PreviousTxOutIndex: vnondetU32("added-vout"), SequenceNumber: vnondetU32("added-seq")}
		_ = in.PreviousTxIDAdd(vnondetBytes("added-txid", 32, 32))
		us := bscript.Script{}
		in.UnlockingScript = &us
		tx.Inputs = append(tx.Inputs, in)
	case 11:
		v := vnondetU64("new-spent-sats")
		vassume(v != prev.Satoshis)
		prev = &bt.Output{Satoshis: v, LockingScript: prev.LockingScript}
	case 12:
		s := append(bscript.Script{}, *prev.LockingScript...)
		s = append(s, bscript.OpNOP)
		prev = &bt.Output{Satoshis: prev.Satoshis, LockingScript: &s}
	}
	err := vverify(tx, idx, prev, forkid)
	want := refCommitted(class, base, acp, forkid, idx, nOut, j)
	if want {
		vassert(err != nil, "C04: changing a committed part invalidates the signature")
		vreach("c04-committed")
	} else {
		vassert(err == nil, "C04: changing an uncommitted part keeps the signature valid")
		vreach("c04-uncommitted")
	}
}
