package interpreter

import (
	"os"
	"strconv"
	"strings"
	"sync"
	"testing"
)

// TestVerifRaceConfirm runs a solver-reported racing pair of validations concurrently on one
// engine (confirmation under the race detector; the deciding step is the schedule query).
func TestVerifRaceConfirm(t *testing.T) {
	spec := os.Getenv("VERIF_RACE") // Engine:0:1
	if spec == "" {
		t.Skip("no VERIF_RACE")
	}
	parts := strings.Split(spec, ":")
	m1, _ := strconv.Atoi(parts[1])
	m2, _ := strconv.Atoi(parts[2])
	for it := 0; it < 300; it++ {
		var wg sync.WaitGroup
		wg.Add(2)
		e := NewEngine()
		j1, j2 := vc18NewJob(), vc18NewJob()
		go func() { defer wg.Done(); _ = vc18Call(e, m1, j1) }()
		go func() { defer wg.Done(); _ = vc18Call(e, m2, j2) }()
		wg.Wait()
	}
}
