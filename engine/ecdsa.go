package main

// Idealised ECDSA (go-bk/bec) — the trusted base for C04/C06/C20:
//   * a private key is an opaque handle over its 32 key bytes; its compressed public key is
//     33 bytes: prefix in {02,03} followed by 32 bytes of an uninterpreted function of the key;
//   * Sign(k,h) yields a strict-DER, low-S signature of exactly 70 bytes whose R and S bytes are
//     uninterpreted functions of (k,h) (leading byte in 01..7e, so no padding is needed);
//   * ParsePubKey / ParseSignature / ParseDERSignature succeed on what the model produced and are
//     an arbitrary (uninterpreted) boolean of the bytes otherwise;
//   * signatures made with different keys or over different digests are different byte strings;
//     different private keys have different public keys;
//   * Verify(h, pub, sig) holds exactly when sig is a signature the model made by Sign(k, h0) with
//     pub = pub(k) and h "equal" to h0 (existential unforgeability), where equality of two digests
//     of the same hash UF is equality of their preimages (collision-free idealisation).

import (
	"fmt"
	"math/big"
)

type ecKey struct {
	priv  []Value // 32 key bytes (nil for a parsed public key)
	pub   []Value // compressed encoding, 33 cells
	pubU  []Value // uncompressed encoding, 65 cells (04 | X | Y)
	bytes []Value // the bytes a parsed key came from
}

type ecSig struct {
	bytes  []Value
	signed *signRec
}

type signRec struct {
	key  *ecKey
	hash []Value
	sig  []Value
}

type ecState struct {
	signs []*signRec
	keys  []*ecKey
	n     int
}

func (in *Interp) ec() *ecState {
	if in.ecst == nil {
		in.ecst = &ecState{}
	}
	return in.ecst
}

func (in *Interp) concatCells(cells []Value) *Term {
	var t *Term
	for _, c := range cells {
		if t == nil {
			t = c.(*Term)
		} else {
			t = in.tb.Concat(t, c.(*Term))
		}
	}
	return t
}

func (in *Interp) splitBytes(t *Term, n int) []Value {
	out := make([]Value, n)
	for i := range out {
		hi := (n-i)*8 - 1
		out[i] = in.tb.Extract(t, hi, hi-7)
	}
	return out
}

func (in *Interp) ecPub(k *ecKey) []Value {
	if k.pub != nil {
		return k.pub
	}
	tb := in.tb
	key := in.concatCells(k.priv)
	x := tb.App("ecdsa_pubx", BV(256), key)
	odd := tb.App("ecdsa_pubodd", SBool, key)
	pre := tb.Ite(odd, tb.BVConst(8, 3), tb.BVConst(8, 2))
	k.pub = append([]Value{pre}, in.splitBytes(x, 32)...)
	return k.pub
}

// ecPubU: the uncompressed encoding 04 | X | Y of the same point (X shared with the compressed
// form, Y a further uninterpreted function of the key).
func (in *Interp) ecPubU(k *ecKey) []Value {
	if k.pubU != nil {
		return k.pubU
	}
	c := in.ecPub(k)
	y := in.tb.App("ecdsa_puby", BV(256), in.concatCells(k.priv))
	k.pubU = append([]Value{in.tb.BVConst(8, 4)}, c[1:]...)
	k.pubU = append(k.pubU, in.splitBytes(y, 32)...)
	return k.pubU
}

// ecPubForms: the encodings under which a model-made key can appear in a script.
func (in *Interp) ecPubOfLen(k *ecKey, n int) []Value {
	if n == 65 {
		return in.ecPubU(k)
	}
	return in.ecPub(k)
}

// hashEqIdeal: equality of two digests; if both are outputs of the same hash UF, equality of the
// preimages (collision freedom).
func (in *Interp) hashEqIdeal(a, b []Value) *Term {
	tb := in.tb
	if len(a) != len(b) {
		return tb.False
	}
	if len(a) > 0 {
		ra, oka := in.digestSource(a)
		rb, okb := in.digestSource(b)
		if oka && okb && ra.Name != rb.Name && hashAlg(ra.Name) == hashAlg(rb.Name) {
			return tb.False // same hash function, preimages of different lengths: distinct (collision freedom)
		}
		if oka && okb && ra.Name == rb.Name && len(ra.A) == len(rb.A) {
			if len(ra.A) == 0 {
				return tb.True
			}
			if ra.A[0].S == rb.A[0].S {
				// nested digests (sha256d): recurse through the inner digest when possible
				ia, oa := in.innerDigest(ra.A[0])
				ib, ob := in.innerDigest(rb.A[0])
				if oa && ob && ia.Name != ib.Name && hashAlg(ia.Name) == hashAlg(ib.Name) {
					return tb.False
				}
				if oa && ob && ia.Name == ib.Name && len(ia.A) == len(ib.A) && len(ia.A) == 1 && ia.A[0].S == ib.A[0].S {
					return tb.Eq(ia.A[0], ib.A[0])
				}
				return tb.Eq(ra.A[0], rb.A[0])
			}
			return tb.False
		}
	}
	res := tb.True
	for i := range a {
		res = tb.And(res, tb.Eq(a[i].(*Term), b[i].(*Term)))
	}
	return res
}

// digestSource: are these cells exactly the bytes of one hash-UF application?
func (in *Interp) digestSource(cells []Value) (*Term, bool) {
	var src *Term
	n := len(cells)
	for i, c := range cells {
		t := c.(*Term)
		if t.Op != OExtract || t.A[0].Op != OApp {
			return nil, false
		}
		hi := (n-i)*8 - 1
		if int(t.P1) != hi || int(t.P2) != hi-7 {
			return nil, false
		}
		if src == nil {
			src = t.A[0]
		} else if src != t.A[0] {
			return nil, false
		}
	}
	return src, src != nil
}

// innerDigest: is the (concatenated) argument itself exactly one hash-UF application?
func (in *Interp) innerDigest(arg *Term) (*Term, bool) {
	// arg is a concat chain of extracts of one App, or the App itself
	if arg.Op == OApp {
		return arg, true
	}
	var parts []*Term
	var walk func(t *Term)
	walk = func(t *Term) {
		if t.Op == OConcat {
			walk(t.A[0])
			walk(t.A[1])
			return
		}
		parts = append(parts, t)
	}
	walk(arg)
	cells := make([]Value, len(parts))
	for i, p := range parts {
		cells[i] = p
	}
	return in.digestSource(cells)
}

func init() {
	reg := func(name string, f intrinsic) { intrinsics[name] = f }
	reg("github.com/libsv/go-bk/bec.PrivKeyFromBytes", func(in *Interp, fr *frame, a []Value) Value {
		in.usedStubs["ecdsa: ideal signature scheme (see engine/ecdsa.go)"] = true
		k := &ecKey{priv: append([]Value{}, a[1].(Slice).A...)}
		if len(k.priv) != 32 {
			panic(engineAbort{"ecdsa model: private keys are 32 bytes"})
		}
		in.ecPub(k)
		in.ec().keys = append(in.ec().keys, k)
		return Tuple{&Opaque{Kind: "ecpriv", Data: k}, &Opaque{Kind: "ecpub", Data: k}}
	})
	reg("(*github.com/libsv/go-bk/bec.PrivateKey).PubKey", func(in *Interp, fr *frame, a []Value) Value {
		return &Opaque{Kind: "ecpub", Data: a[0].(*Opaque).Data}
	})
	reg("(*github.com/libsv/go-bk/bec.PublicKey).SerialiseCompressed", func(in *Interp, fr *frame, a []Value) Value {
		k := a[0].(*Opaque).Data.(*ecKey)
		if k.priv == nil {
			if len(k.bytes) == 33 {
				return Slice{A: append([]Value{}, k.bytes...)}
			}
			panic(engineAbort{"ecdsa model: SerialiseCompressed of a parsed non-compressed key"})
		}
		return Slice{A: append([]Value{}, in.ecPub(k)...)}
	})
	reg("(*github.com/libsv/go-bk/bec.PublicKey).SerialiseUncompressed", func(in *Interp, fr *frame, a []Value) Value {
		k := a[0].(*Opaque).Data.(*ecKey)
		if k.priv == nil {
			if len(k.bytes) == 65 {
				return Slice{A: append([]Value{}, k.bytes...)}
			}
			panic(engineAbort{"ecdsa model: SerialiseUncompressed of a parsed compressed key"})
		}
		return Slice{A: append([]Value{}, in.ecPubU(k)...)}
	})
	reg("(*github.com/libsv/go-bk/bec.PrivateKey).Sign", func(in *Interp, fr *frame, a []Value) Value {
		in.usedStubs["ecdsa: ideal signature scheme (see engine/ecdsa.go)"] = true
		tb := in.tb
		k := a[0].(*Opaque).Data.(*ecKey)
		hash := append([]Value{}, a[1].(Slice).A...)
		es := in.ec()
		es.n++
		key := in.concatCells(k.priv)
		var r, s *Term
		if len(hash) == 0 {
			r, s = tb.App("ecdsa_r0", BV(256), key), tb.App("ecdsa_s0", BV(256), key)
		} else {
			h := in.concatCells(hash)
			r = tb.App(fmt.Sprintf("ecdsa_r_%d", len(hash)), BV(256), key, h)
			s = tb.App(fmt.Sprintf("ecdsa_s_%d", len(hash)), BV(256), key, h)
		}
		rb, sb := in.splitBytes(r, 32), in.splitBytes(s, 32)
		// canonical strict-DER, low-S: leading bytes in 01..7e
		for _, lead := range []*Term{rb[0].(*Term), sb[0].(*Term)} {
			in.addPC(tb.And(tb.Cmp(OUle, tb.BVConst(8, 1), lead), tb.Cmp(OUle, lead, tb.BVConst(8, 0x7e))))
		}
		sig := []Value{tb.BVConst(8, 0x30), tb.BVConst(8, 68), tb.BVConst(8, 0x02), tb.BVConst(8, 32)}
		sig = append(sig, rb...)
		sig = append(sig, tb.BVConst(8, 0x02), tb.BVConst(8, 32))
		sig = append(sig, sb...)
		rec := &signRec{key: k, hash: hash, sig: sig}
		// signatures of different keys or different digests are different byte strings
		for _, old := range es.signs {
			if len(old.sig) == len(sig) {
				sameKey := in.bytesEq(Slice{A: old.key.priv}, Slice{A: k.priv})
				in.addPC(tb.Implies(in.bytesEq(Slice{A: old.sig}, Slice{A: sig}), tb.And(sameKey, in.hashEqIdeal(hash, old.hash))))
			}
		}
		es.signs = append(es.signs, rec)
		return Tuple{&Opaque{Kind: "ecsig", Data: &ecSig{bytes: sig, signed: rec}}, Iface{}}
	})
	reg("(*github.com/libsv/go-bk/bec.Signature).Serialise", func(in *Interp, fr *frame, a []Value) Value {
		return Slice{A: append([]Value{}, a[0].(*Opaque).Data.(*ecSig).bytes...)}
	})
	reg("github.com/libsv/go-bk/bec.ParsePubKey", func(in *Interp, fr *frame, a []Value) Value {
		in.usedStubs["ecdsa: ideal signature scheme (see engine/ecdsa.go)"] = true
		tb := in.tb
		bs := append([]Value{}, a[0].(Slice).A...)
		fail := Tuple{(*Opaque)(nil), in.newError(Str{S: "invalid public key"}, nil)}
		var okc *Term
		switch len(bs) {
		case 33:
			f := bs[0].(*Term)
			okc = tb.Or(tb.Eq(f, tb.BVConst(8, 2)), tb.Eq(f, tb.BVConst(8, 3)))
		case 65:
			f := bs[0].(*Term)
			okc = tb.Or(tb.Eq(f, tb.BVConst(8, 4)), tb.Or(tb.Eq(f, tb.BVConst(8, 6)), tb.Eq(f, tb.BVConst(8, 7))))
		default:
			return fail
		}
		// on-curve check: uninterpreted, except for keys the model derived itself
		onCurve := tb.App(fmt.Sprintf("ecdsa_oncurve_%d", len(bs)), SBool, in.concatCells(bs))
		for _, dk := range in.ec().keys {
			pub := in.ecPubOfLen(dk, len(bs))
			if len(pub) == len(bs) {
				in.addPC(tb.Implies(in.bytesEq(Slice{A: pub}, Slice{A: bs}), onCurve))
			}
		}
		if !in.decide(fr, nil, tb.And(okc, onCurve)) {
			return fail
		}
		return Tuple{&Opaque{Kind: "ecpub", Data: &ecKey{bytes: bs}}, Iface{}}
	})
	parseSig := func(der bool) intrinsic {
		return func(in *Interp, fr *frame, a []Value) Value {
			in.usedStubs["ecdsa: ideal signature scheme (see engine/ecdsa.go)"] = true
			tb := in.tb
			bs := append([]Value{}, a[0].(Slice).A...)
			fail := Tuple{(*Opaque)(nil), in.newError(Str{S: "malformed signature"}, nil)}
			if len(bs) < 8 {
				return fail
			}
			name := "ecdsa_sigparse"
			if der {
				name = "ecdsa_sigparse_der"
			}
			okc := tb.App(fmt.Sprintf("%s_%d", name, len(bs)), SBool, in.concatCells(bs))
			var signed *signRec
			for _, rec := range in.ec().signs {
				if len(rec.sig) == len(bs) {
					in.addPC(tb.Implies(in.bytesEq(Slice{A: rec.sig}, Slice{A: bs}), okc))
				}
			}
			_ = signed
			if !in.decide(fr, nil, okc) {
				return fail
			}
			return Tuple{&Opaque{Kind: "ecsig", Data: &ecSig{bytes: bs}}, Iface{}}
		}
	}
	reg("github.com/libsv/go-bk/bec.ParseSignature", parseSig(false))
	reg("github.com/libsv/go-bk/bec.ParseDERSignature", parseSig(true))
	reg("(*github.com/libsv/go-bk/bec.Signature).Verify", func(in *Interp, fr *frame, a []Value) Value {
		in.usedStubs["ecdsa: ideal signature scheme (see engine/ecdsa.go)"] = true
		tb := in.tb
		sig := a[0].(*Opaque).Data.(*ecSig)
		hash := a[1].(Slice).A
		key := a[2].(*Opaque).Data.(*ecKey)
		var pub []Value
		if key.priv != nil {
			pub = in.ecPub(key)
		} else {
			pub = key.bytes
		}
		var v *Term
		if len(hash) == 0 {
			v = tb.App(fmt.Sprintf("ecdsa_verify_0_%d_%d", len(pub), len(sig.bytes)), SBool, in.concatCells(pub), in.concatCells(sig.bytes))
		} else {
			v = tb.App(fmt.Sprintf("ecdsa_verify_%d_%d_%d", len(hash), len(pub), len(sig.bytes)), SBool, in.concatCells(hash), in.concatCells(pub), in.concatCells(sig.bytes))
		}
		in.hashInjectivity()
		// existential unforgeability: a (hash, key, signature) triple verifies exactly when the
		// signature is one the model made with that key over an equal digest
		made := tb.False
		for _, rec := range in.ec().signs {
			rp := in.ecPubOfLen(rec.key, len(pub))
			if len(rp) != len(pub) || len(rec.sig) != len(sig.bytes) {
				continue
			}
			sameSig := in.bytesEq(Slice{A: rec.sig}, Slice{A: sig.bytes})
			samePub := in.bytesEq(Slice{A: rp}, Slice{A: pub})
			made = tb.Or(made, tb.And(sameSig, tb.And(samePub, in.hashEqIdeal(hash, rec.hash))))
		}
		in.addPC(tb.Eq(v, made))
		return v
	})
}

// hashInjectivity adds the collision-freedom idealisation for every pair of hash-UF applications
// made so far on this path: same algorithm, different input lengths => different digests; same
// length => equal digests only for equal inputs.
func (in *Interp) hashInjectivity() {
	tb := in.tb
	apps := in.hashApps
	seen := map[*Term]bool{}
	var uniq []*Term
	for _, a := range apps {
		if !seen[a] {
			seen[a] = true
			uniq = append(uniq, a)
		}
	}
	// relation to digests that were computed concretely on this path
	if in.hashConcDone == nil {
		in.hashConcDone = map[string]bool{}
	}
	for _, a := range uniq {
		for ci, c := range in.hashConc {
			if hashAlg(a.Name) != c.alg {
				continue
			}
			key := fmt.Sprintf("%d/%d", a.id, ci)
			if in.hashConcDone[key] {
				continue
			}
			in.hashConcDone[key] = true
			dc := tb.BVBig(int(a.S.W), new(big.Int).SetBytes(c.digest))
			if len(a.A) == 0 || int(a.A[0].S.W) != 8*len(c.in) {
				in.addPC(tb.Not(tb.Eq(a, dc)))
			} else {
				ic := tb.BVBig(8*len(c.in), new(big.Int).SetBytes(c.in))
				in.addPC(tb.Eq(tb.Eq(a, dc), tb.Eq(a.A[0], ic)))
			}
		}
	}
	for i := in.hashInjDone; i < len(uniq); i++ {
		// digests never coincide with the two protocol constants (32 zero bytes; the legacy SINGLE constant 01 00..00)
		a := uniq[i]
		in.addPC(tb.Not(tb.Eq(a, tb.BVConst(int(a.S.W), 0))))
		if a.S.W == 256 {
			one := new(big.Int).Lsh(big.NewInt(1), 248)
			in.addPC(tb.Not(tb.Eq(a, tb.BVBig(256, one))))
		}
	}
	if len(uniq) <= in.hashInjDone {
		return
	}
	in.usedStubs["hash: collision-free idealisation (distinct preimages => distinct digests) for signature verification"] = true
	for i := in.hashInjDone; i < len(uniq); i++ {
		for j := 0; j < i; j++ {
			a, b := uniq[i], uniq[j]
			if hashAlg(a.Name) != hashAlg(b.Name) {
				continue
			}
			if a.Name != b.Name {
				in.addPC(tb.Not(tb.Eq(a, b)))
			} else if len(a.A) == 1 && len(b.A) == 1 {
				in.addPC(tb.Implies(tb.Eq(a, b), tb.Eq(a.A[0], b.A[0])))
			}
		}
	}
	in.hashInjDone = len(uniq)
}

func hashAlg(name string) string {
	for i := len(name) - 1; i >= 0; i-- {
		if name[i] == '_' {
			return name[:i]
		}
	}
	return name
}
