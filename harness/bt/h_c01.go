package bt

import (
	"bytes"

	"github.com/libsv/go-bt/v2/bscript"
)

type bscriptScript = bscript.Script

// C01-H3: VarInt codec over the full 64-bit range.
func VH_C01_VarInt() {
	v := VarInt(vnondetU64("v"))
	b := v.Bytes()
	vassert(len(b) == v.Length(), "len(Bytes)==Length")
	var w VarInt
	n, err := w.ReadFrom(bytes.NewReader(b))
	vassert(err == nil, "ReadFrom ok")
	vassert(int(n) == len(b), "ReadFrom consumed all")
	vassert(w == v, "ReadFrom(Bytes(v))==v")
	w2, n2 := NewVarIntFromBytes(b)
	vassert(vand(w2 == v, n2 == len(b)), "NewVarIntFromBytes agrees")
	inc := v.UpperLimitInc()
	if v != 0xffffffffffffffff {
		grow := (v + 1).Length() - v.Length()
		vassert(inc == grow, "UpperLimitInc equals growth")
		vreach("not-max")
	} else {
		vassert(inc == -1, "UpperLimitInc at max")
		vreach("max")
	}
}

// refWalk is an independent re-parse of a serialised transaction: it returns the
// length of the transaction, whether it is in extended format and whether all its
// varints are minimally encoded. ok=false if the buffer is truncated.
func refVarint(b []byte, p int) (v uint64, n int, minimal bool, ok bool) {
	if p >= len(b) {
		return 0, 0, false, false
	}
	t := b[p]
	switch {
	case t < 0xfd:
		return uint64(t), 1, true, true
	case t == 0xfd:
		if p+3 > len(b) {
			return 0, 0, false, false
		}
		v = uint64(b[p+1]) | uint64(b[p+2])<<8
		return v, 3, v >= 0xfd, true
	case t == 0xfe:
		if p+5 > len(b) {
			return 0, 0, false, false
		}
		v = uint64(b[p+1]) | uint64(b[p+2])<<8 | uint64(b[p+3])<<16 | uint64(b[p+4])<<24
		return v, 5, v >= 0x10000, true
	}
	if p+9 > len(b) {
		return 0, 0, false, false
	}
	for i := 0; i < 8; i++ {
		v |= uint64(b[p+1+i]) << (8 * uint(i))
	}
	return v, 9, v >= 0x100000000, true
}

func refWalk(b []byte) (used int, extended, minimal, ok bool) {
	minimal = true
	p := 4
	if len(b) < 4 {
		return 0, false, false, false
	}
	nin, n, m, k := refVarint(b, p)
	if !k {
		return 0, false, false, false
	}
	minimal = minimal && m
	p += n
	var nout uint64
	haveOut := false
	if nin == 0 {
		// either a transaction without inputs or the extended-format marker 00 00 00 00 00 EF
		nout, n, m, k = refVarint(b, p)
		if !k {
			return 0, false, false, false
		}
		minimal = minimal && m
		p += n
		haveOut = true
		if nout == 0 {
			if p+4 > len(b) {
				return 0, false, false, false
			}
			if !(b[p] == 0 && b[p+1] == 0 && b[p+2] == 0 && b[p+3] == 0xEF) {
				return p + 4, false, minimal, true
			}
			p += 4
			extended = true
			haveOut = false
			nin, n, m, k = refVarint(b, p)
			if !k {
				return 0, false, false, false
			}
			minimal = minimal && m
			p += n
		}
	}
	for i := uint64(0); i < nin; i++ {
		if p+36 > len(b) {
			return 0, false, false, false
		}
		p += 36
		l, n, m, k := refVarint(b, p)
		if !k {
			return 0, false, false, false
		}
		minimal = minimal && m
		p += n
		if l > uint64(len(b)-p) {
			return 0, false, false, false
		}
		p += int(l) + 4
		if p > len(b) {
			return 0, false, false, false
		}
		if extended {
			if p+8 > len(b) {
				return 0, false, false, false
			}
			p += 8
			l, n, m, k := refVarint(b, p)
			if !k {
				return 0, false, false, false
			}
			minimal = minimal && m
			p += n
			if l > uint64(len(b)-p) {
				return 0, false, false, false
			}
			p += int(l)
		}
	}
	if !haveOut {
		nout, n, m, k = refVarint(b, p)
		if !k {
			return 0, false, false, false
		}
		minimal = minimal && m
		p += n
	}
	for i := uint64(0); i < nout; i++ {
		if p+8 > len(b) {
			return 0, false, false, false
		}
		p += 8
		l, n, m, k := refVarint(b, p)
		if !k {
			return 0, false, false, false
		}
		minimal = minimal && m
		p += n
		if l > uint64(len(b)-p) {
			return 0, false, false, false
		}
		p += int(l)
	}
	if p+4 > len(b) {
		return 0, false, false, false
	}
	return p + 4, extended, minimal, true
}

// C01-H2: any buffer the parser accepts is consumed to exactly the end of the
// transaction and re-serialises (in the format it arrived in) to the same bytes when
// its varints are minimal.
func VH_C01_DecodeEncode() {
	n := vparam("N", 16)
	b := vnondetBytes("b", 0, n)
	vcap(0, len(b)+9)
	tx, used, err := NewTxFromStream(b)
	rused, rext, rmin, rok := refWalk(b)
	if err != nil {
		vassert(!rok, "parser rejects only truncated input")
		vreach("rejected")
		return
	}
	vassert(rok, "accepted input is a complete transaction")
	vassert(used == rused, "consumed exactly to the end of the transaction")
	vassert(used <= len(b), "used<=len")
	_, err2 := NewTxFromBytes(b)
	vassert((err2 == nil) == (used == len(b)), "NewTxFromBytes ok iff whole buffer consumed")
	if rmin {
		var out []byte
		if rext {
			out = tx.ExtendedBytes()
			vreach("extended-minimal")
		} else {
			out = tx.Bytes()
			vreach("standard-minimal")
		}
		vassert(vbytesEq(out, b[:used]), "re-serialises to identical bytes")
	} else {
		vreach("non-minimal")
	}
}

// C01-H1: serialise -> parse -> serialise for transactions built field by field.
func VH_C01_EncodeDecode() {
	maxIO := vparam("IO", 2)
	maxS := vparam("S", 3)
	tx := vtx(0, maxIO, 0, maxIO, maxS)
	ext := vnondetBool("extended")
	if ext {
		for _, in := range tx.Inputs {
			in.PreviousTxSatoshis = vnondetU64("prevsats")
			switch vnondetLen("prevkind", 0, 2) {
			case 0: // nil previous script
			case 1:
				in.PreviousTxScript = vscript("prevscript", 0, 0)
			case 2:
				in.PreviousTxScript = vscript("prevscript", 1, maxS)
			}
		}
	}
	// excluded shape: no inputs, no outputs, locktime bytes 00 00 00 EF
	if len(tx.Inputs) == 0 && len(tx.Outputs) == 0 {
		vassume(tx.LockTime != 0xEF000000)
	}
	var b []byte
	if ext {
		b = tx.ExtendedBytes()
	} else {
		b = tx.Bytes()
	}
	tx2, err := NewTxFromBytes(b)
	vassert(err == nil, "parse of own serialisation succeeds")
	if err != nil {
		return
	}
	vassert(vtxEqual(tx, tx2), "fields preserved")
	if ext {
		vreach("extended")
		ok := true
		for i, in := range tx.Inputs {
			ok = vand(ok, in.PreviousTxSatoshis == tx2.Inputs[i].PreviousTxSatoshis)
			ok = vand(ok, vbytesEq(scriptBytes(in.PreviousTxScript), scriptBytes(tx2.Inputs[i].PreviousTxScript)))
		}
		vassert(ok, "extended: previous value and script preserved")
		vassert(vbytesEq(tx2.ExtendedBytes(), b), "extended bytes reproduced")
	} else {
		vreach("standard")
		vassert(vbytesEq(tx2.Bytes(), b), "bytes reproduced")
	}
	// stream parsing of the same bytes followed by garbage consumes exactly len(b)
	tail := vnondetBytes("tail", 0, 2)
	tx3, used, err3 := NewTxFromStream(append(append([]byte{}, b...), tail...))
	vassert(vand(err3 == nil, used == len(b)), "stream parse consumes exactly the transaction")
	if err3 == nil {
		vassert(vtxEqual(tx, tx3), "stream parse fields preserved")
	}
	if vparam("HASH", 1) == 0 {
		return
	}
	// transaction id = reversed double SHA-256 of the standard serialisation
	id := tx.TxIDBytes()
	want := ReverseBytes(sha256dRef(tx.Bytes()))
	vassert(vbytesEq(id, want), "txid is reversed sha256d of standard bytes")
	// Clone preserves everything
	c := tx.Clone()
	vassert(vtxEqual(tx, c), "clone equal")
}

// boundary script lengths: one focus script sits on a varint boundary.
func vwindowLen(tag string) int {
	big := vparam("BIG", 0)
	k := vnondetLen(tag, 0, 3+2*big)
	return []int{0, 252, 253, 254, 65535, 65536}[k]
}

// C01-H1b: script lengths on the varint boundaries, in every script position.
func VH_C01_Boundary() {
	pos := vnondetLen("pos", 0, 2)
	n := vwindowLen("window")
	mk := func(p int) *bscriptScript {
		if p == pos {
			return vscript("focus", n, n)
		}
		return vscript("other", 1, 1)
	}
	tx := &Tx{Version: vnondetU32("version"), LockTime: vnondetU32("locktime")}
	tx.Inputs = []*Input{{previousTxID: vnondetBytes("txid", 32, 32), PreviousTxOutIndex: vnondetU32("vout"), SequenceNumber: vnondetU32("seq"),
		UnlockingScript: mk(0), PreviousTxScript: mk(2), PreviousTxSatoshis: vnondetU64("prevsats")}}
	tx.Outputs = []*Output{{Satoshis: vnondetU64("sats"), LockingScript: mk(1)}}
	for _, ext := range []bool{false, true} {
		var b []byte
		if ext {
			b = tx.ExtendedBytes()
		} else {
			b = tx.Bytes()
		}
		tx2, err := NewTxFromBytes(b)
		vassert(err == nil, "boundary: parse of own serialisation succeeds")
		if err != nil {
			return
		}
		vassert(vtxEqual(tx, tx2), "boundary: fields preserved")
		if ext {
			vassert(vbytesEq(scriptBytes(tx.Inputs[0].PreviousTxScript), scriptBytes(tx2.Inputs[0].PreviousTxScript)), "boundary: previous script preserved")
			vassert(vbytesEq(tx2.ExtendedBytes(), b), "boundary: extended bytes reproduced")
		} else {
			vassert(vbytesEq(tx2.Bytes(), b), "boundary: bytes reproduced")
		}
		want := 4 + 1 + 36 + VarInt(uint64(len(*tx.Inputs[0].UnlockingScript))).Length() + len(*tx.Inputs[0].UnlockingScript) + 4 + 1 + 8 + VarInt(uint64(len(*tx.Outputs[0].LockingScript))).Length() + len(*tx.Outputs[0].LockingScript) + 4
		if ext {
			want += 6 + 8 + VarInt(uint64(len(*tx.Inputs[0].PreviousTxScript))).Length() + len(*tx.Inputs[0].PreviousTxScript)
		}
		vassert(len(b) == want, "boundary: serialised length uses minimal varints")
	}
	vreach("boundary-done")
}

// C01-H1c: input / output counts on the 252/253 varint boundary (empty scripts).
func VH_C01_CountBoundary() {
	side := vnondetLen("side", 0, 1)
	cnt := 252 + vnondetLen("cnt", 0, 1)
	tx := &Tx{Version: vnondetU32("version"), LockTime: vnondetU32("locktime")}
	if side == 0 {
		txid := vnondetBytes("txid", 32, 32)
		for i := 0; i < cnt; i++ {
			tx.Inputs = append(tx.Inputs, &Input{previousTxID: txid, PreviousTxOutIndex: uint32(i), SequenceNumber: vnondetU32("seq"), UnlockingScript: vscript("u", 0, 0)})
		}
	} else {
		for i := 0; i < cnt; i++ {
			tx.Outputs = append(tx.Outputs, &Output{Satoshis: vnondetU64("sats"), LockingScript: vscript("l", 0, 0)})
		}
	}
	b := tx.Bytes()
	tx2, err := NewTxFromBytes(b)
	vassert(err == nil, "count boundary: parse succeeds")
	if err != nil {
		return
	}
	vassert(vtxEqual(tx, tx2), "count boundary: fields preserved")
	vassert(vbytesEq(tx2.Bytes(), b), "count boundary: bytes reproduced")
	vreach("count-done")
}

// vencVarint encodes v in one of the four varint forms (minimal or not), chosen by the solver.
func vencVarint(tag string, v int) []byte {
	switch vnondetLen(tag, 0, 3) {
	case 0:
		if v < 0xfd {
			return []byte{byte(v)}
		}
		return []byte{0xfd, byte(v), byte(v >> 8)}
	case 1:
		return []byte{0xfd, byte(v), byte(v >> 8)}
	case 2:
		return []byte{0xfe, byte(v), byte(v >> 8), 0, 0}
	}
	return []byte{0xff, byte(v), byte(v >> 8), 0, 0, 0, 0, 0, 0}
}

// C01-H2b: buffers whose counts and length prefixes use any (also non-minimal) varint form are
// consumed exactly to the end by single, stream and block-list parsing.
func VH_C01_NonMinimal() {
	nIn := vnondetLen("nin", 0, 1)
	nOut := vnondetLen("nout", 0, 1)
	b := vnondetBytes("version", 4, 4)
	b = append(b, vencVarint("incount-form", nIn)...)
	for i := 0; i < nIn; i++ {
		b = append(b, vnondetBytes("outpoint", 36, 36)...)
		sl := vnondetLen("uslen", 0, 1)
		b = append(b, vencVarint("uslen-form", sl)...)
		b = append(b, vnondetBytes("us", sl, sl)...)
		b = append(b, vnondetBytes("seq", 4, 4)...)
	}
	if nIn > 0 || nOut > 0 || true {
		b = append(b, vencVarint("outcount-form", nOut)...)
	}
	for i := 0; i < nOut; i++ {
		b = append(b, vnondetBytes("sats", 8, 8)...)
		sl := vnondetLen("lslen", 0, 2)
		b = append(b, vencVarint("lslen-form", sl)...)
		b = append(b, vnondetBytes("ls", sl, sl)...)
	}
	lt := vnondetBytes("locktime", 4, 4)
	if nIn == 0 && nOut == 0 {
		vassume(!(lt[0] == 0 && lt[1] == 0 && lt[2] == 0 && lt[3] == 0xEF))
	}
	b = append(b, lt...)
	tx, used, err := NewTxFromStream(b)
	vassert(err == nil && used == len(b), "non-minimal: stream parse consumes exactly the transaction")
	_, err2 := NewTxFromBytes(b)
	vassert(err2 == nil, "non-minimal: NewTxFromBytes accepts the exact buffer")
	if err == nil {
		vassert(len(tx.Inputs) == nIn && len(tx.Outputs) == nOut, "non-minimal: counts decoded")
	}
	// two transactions back to back as a counted list
	list := append([]byte{2}, b...)
	list = append(list, b...)
	var tt Txs
	n, err3 := tt.ReadFrom(bytes.NewReader(list))
	vassert(err3 == nil && n == int64(len(list)) && len(tt) == 2, "non-minimal: block-list parse consumes exactly both transactions")
	vreach("nonminimal-done")
}

// C01-L: block-list parsing with the transaction count on the varint boundaries and beyond: every
// listed transaction is decoded and the bytes are consumed exactly to the end. The transactions are
// minimal (no inputs, no outputs) with symbolic version and lock time in the first and last one.
func VH_C01_ListCount() {
	n := []int{0, 1, 252, 253, 1024, 1025, 3000}[vnondetLen("ntx", 0, 4+2*vparam("BIG", 0))]
	var b []byte
	switch {
	case n < 253:
		b = append(b, byte(n))
	default:
		b = append(b, 0xfd, byte(n), byte(n>>8))
	}
	v0, l0 := vnondetU32("version-first"), vnondetU32("locktime-first")
	v1, l1 := vnondetU32("version-last"), vnondetU32("locktime-last")
	vassume(l0 != 0xEF000000 && l1 != 0xEF000000) // the excluded ambiguous shape
	for i := 0; i < n; i++ {
		v, l := uint32(1), uint32(0)
		if i == 0 {
			v, l = v0, l0
		} else if i == n-1 {
			v, l = v1, l1
		}
		b = append(b, byte(v), byte(v>>8), byte(v>>16), byte(v>>24), 0, 0, byte(l), byte(l>>8), byte(l>>16), byte(l>>24))
	}
	var tt Txs
	used, err := tt.ReadFrom(bytes.NewReader(b))
	vassert(err == nil, "list: a well-formed counted list parses")
	if err != nil {
		return
	}
	vassert(int(used) == len(b), "list: consumed exactly to the end of the list")
	vassert(len(tt) == n, "list: every listed transaction is decoded")
	if n > 0 && len(tt) == n {
		vassert(tt[0].Version == v0 && tt[0].LockTime == l0, "list: first transaction preserved")
		if n > 1 {
			vassert(tt[n-1].Version == v1 && tt[n-1].LockTime == l1, "list: last transaction preserved")
		}
	}
	vreach("list-done")
}
