package main

// Lock-discipline checking for C18: two "threads" (vthread(1), vthread(2)) are executed one
// after the other on a shared object; mutex operations and accesses to the shared cells / maps
// are logged per thread. vraceCheck() then asks the solver, for every conflicting access pair,
// whether a schedule exists (integer time stamps, program order, RWMutex exclusion) in which the
// two accesses are adjacent - i.e. not ordered by any unlock->lock edge. sat = data race.

import (
	"fmt"
	"math/big"
	"sort"
)

type raceEvent struct {
	kind  byte // 'L' lock, 'U' unlock, 'l' rlock, 'u' runlock, 'r' read, 'w' write
	mu    *Value
	loc   string
	cell  interface{}
	fn    string
	index int
}

type raceState struct {
	thread  int
	events  [3][]raceEvent
	cells   map[*Value]string
	maps    map[*Map]string
	enabled bool
}

func (in *Interp) raceLog(kind byte, mu *Value, cell interface{}, loc string) {
	rs := in.race
	if rs == nil || !rs.enabled || rs.thread == 0 {
		return
	}
	fn := ""
	if in.curFn != nil {
		fn = in.curFn.String()
	}
	rs.events[rs.thread] = append(rs.events[rs.thread], raceEvent{kind: kind, mu: mu, loc: loc, cell: cell, fn: fn, index: len(rs.events[rs.thread])})
}

func (in *Interp) raceAccessCell(p *Value, write bool) {
	rs := in.race
	if rs == nil || !rs.enabled || rs.thread == 0 {
		return
	}
	if loc, ok := rs.cells[p]; ok {
		k := byte('r')
		if write {
			k = 'w'
		}
		in.raceLog(k, nil, p, loc)
	}
}

func (in *Interp) raceAccessMap(m *Map, write bool) {
	rs := in.race
	if rs == nil || !rs.enabled || rs.thread == 0 || m == nil {
		return
	}
	if loc, ok := rs.maps[m]; ok {
		k := byte('r')
		if write {
			k = 'w'
		}
		in.raceLog(k, nil, m, loc)
	}
}

// raceShare registers everything reachable from v as shared state, naming cells by path.
func (in *Interp) raceShare(v Value, path string, depth int) {
	rs := in.race
	if depth > 12 {
		return
	}
	switch v := v.(type) {
	case Iface:
		in.raceShare(v.V, path, depth+1)
	case *Value:
		if v == nil {
			return
		}
		if _, seen := rs.cells[v]; seen {
			return
		}
		rs.cells[v] = path
		in.raceShareInner(v, path, depth+1)
	case *Map:
		if v == nil {
			return
		}
		if _, seen := rs.maps[v]; seen {
			return
		}
		rs.maps[v] = path + "{map}"
		for _, e := range v.entries {
			in.raceShare(e.V, path+"[...]", depth+1)
		}
	case Slice:
		full := v.A[:cap(v.A)]
		for i := range full {
			if _, seen := rs.cells[&full[i]]; !seen {
				rs.cells[&full[i]] = fmt.Sprintf("%s[%d]", path, i)
				in.raceShareInner(&full[i], fmt.Sprintf("%s[%d]", path, i), depth+1)
			}
		}
	}
}

func (in *Interp) raceShareInner(p *Value, path string, depth int) {
	switch c := (*p).(type) {
	case Struct:
		for i := range c {
			fp := fmt.Sprintf("%s.f%d", path, i)
			rs := in.race
			rs.cells[&c[i]] = fp
			in.raceShareInner(&c[i], fp, depth+1)
		}
	case Array:
		for i := range c {
			fp := fmt.Sprintf("%s[%d]", path, i)
			in.race.cells[&c[i]] = fp
			in.raceShareInner(&c[i], fp, depth+1)
		}
	default:
		in.raceShare(c, path, depth+1)
	}
}

// raceCheck builds and decides the interleaving queries.
func (in *Interp) raceCheck(fr *frame) {
	rs := in.race
	tb := in.tb
	t1, t2 := rs.events[1], rs.events[2]
	type access struct{ e raceEvent }
	name := func(th int, i int) *Term { return tb.Sym(fmt.Sprintf("race_t%d_e%d", th, i), SInt) }
	var base []*Term
	ic := func(v int64) *Term { return tb.IntConst(big.NewInt(v)) }
	// program order + distinct time stamps
	for th, evs := range [][]raceEvent{nil, t1, t2} {
		for i := range evs {
			base = append(base, tb.IBin(OILe, ic(0), name(th, i)))
			if i > 0 {
				base = append(base, tb.IBin(OILt, name(th, i-1), name(th, i)))
			}
		}
	}
	for i := range t1 {
		for j := range t2 {
			base = append(base, tb.Not(tb.Eq(name(1, i), name(2, j))))
		}
	}
	// critical sections per thread
	type cs struct {
		mu       *Value
		acq, rel int
		write    bool
	}
	sections := func(evs []raceEvent) []cs {
		var out []cs
		open := map[*Value][]int{}
		for i, e := range evs {
			switch e.kind {
			case 'L', 'l':
				open[e.mu] = append(open[e.mu], i)
			case 'U', 'u':
				st := open[e.mu]
				if len(st) > 0 {
					a := st[len(st)-1]
					open[e.mu] = st[:len(st)-1]
					out = append(out, cs{e.mu, a, i, evs[a].kind == 'L'})
				}
			}
		}
		for mu, st := range open { // never released within the call
			for _, a := range st {
				out = append(out, cs{mu, a, len(evs), evs[a].kind == 'L'})
			}
		}
		return out
	}
	s1, s2 := sections(t1), sections(t2)
	tsOrEnd := func(th, i, n int) *Term {
		if i >= n {
			return ic(1 << 40)
		}
		return name(th, i)
	}
	for _, a := range s1 {
		for _, b := range s2 {
			if a.mu == b.mu && (a.write || b.write) {
				base = append(base, tb.Or(tb.IBin(OILt, tsOrEnd(1, a.rel, len(t1)), name(2, b.acq)), tb.IBin(OILt, tsOrEnd(2, b.rel, len(t2)), name(1, a.acq))))
			}
		}
	}
	// conflicting accesses
	seen := map[string]bool{}
	for i, a := range t1 {
		if a.kind != 'r' && a.kind != 'w' {
			continue
		}
		for j, b := range t2 {
			if b.kind != 'r' && b.kind != 'w' {
				continue
			}
			if a.cell != b.cell || (a.kind == 'r' && b.kind == 'r') {
				continue
			}
			key := a.loc + "|" + a.fn + "|" + b.fn
			if seen[key] {
				continue
			}
			adj := tb.Or(tb.Eq(name(2, j), tb.IBin(OIAdd, name(1, i), ic(1))), tb.Eq(name(1, i), tb.IBin(OIAdd, name(2, j), ic(1))))
			in.sol.Push()
			for _, c := range base {
				in.sol.Assert(c)
			}
			in.sol.Assert(adj)
			r := in.sol.Check()
			in.sol.Pop()
			in.ex.mu.Lock()
			in.ex.raceQueries++
			in.ex.mu.Unlock()
			if r == Sat {
				seen[key] = true
				fns := []string{a.fn, b.fn}
				sort.Strings(fns)
				in.obligation(tb.False, fmt.Sprintf("race:%s:%s/%s", a.loc, fns[0], fns[1]), false)
			} else if r == Unknown {
				panic(boundHit{"solver unknown on a schedule query"})
			}
		}
	}
}
