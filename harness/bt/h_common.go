package bt

import "github.com/libsv/go-bt/v2/bscript"

// vscript returns a script of symbolic length in [lo,hi] with symbolic content.
func vscript(tag string, lo, hi int) *bscript.Script {
	s := bscript.Script(vnondetBytes(tag, lo, hi))
	return &s
}

// vtx builds a transaction of symbolic shape: nIn in [minIn,maxIn], nOut in [minOut,maxOut];
// every field symbolic; script lengths in [0,maxScript].
func vtx(minIn, maxIn, minOut, maxOut, maxScript int) *Tx {
	tx := &Tx{Version: vnondetU32("version"), LockTime: vnondetU32("locktime")}
	nIn := vnondetLen("nIn", minIn, maxIn)
	nOut := vnondetLen("nOut", minOut, maxOut)
	for i := 0; i < nIn; i++ {
		in := &Input{
			previousTxID:       vnondetBytes("txid", 32, 32),
			PreviousTxOutIndex: vnondetU32("vout"),
			SequenceNumber:     vnondetU32("seq"),
			UnlockingScript:    vscript("unlock", 0, maxScript),
		}
		tx.Inputs = append(tx.Inputs, in)
	}
	for i := 0; i < nOut; i++ {
		tx.Outputs = append(tx.Outputs, &Output{Satoshis: vnondetU64("sats"), LockingScript: vscript("lock", 0, maxScript)})
	}
	return tx
}

func scriptBytes(s *bscript.Script) []byte {
	if s == nil {
		return nil
	}
	return []byte(*s)
}

// vtxEqual: field-wise equality of two transactions (standard fields).
func vtxEqual(a, b *Tx) bool {
	if a.Version != b.Version || a.LockTime != b.LockTime || len(a.Inputs) != len(b.Inputs) || len(a.Outputs) != len(b.Outputs) {
		return false
	}
	ok := true
	for i := range a.Inputs {
		x, y := a.Inputs[i], b.Inputs[i]
		ok = vand(ok, vbytesEq(x.previousTxID, y.previousTxID))
		ok = vand(ok, x.PreviousTxOutIndex == y.PreviousTxOutIndex)
		ok = vand(ok, x.SequenceNumber == y.SequenceNumber)
		ok = vand(ok, vbytesEq(scriptBytes(x.UnlockingScript), scriptBytes(y.UnlockingScript)))
	}
	for i := range a.Outputs {
		x, y := a.Outputs[i], b.Outputs[i]
		ok = vand(ok, x.Satoshis == y.Satoshis)
		ok = vand(ok, vbytesEq(scriptBytes(x.LockingScript), scriptBytes(y.LockingScript)))
	}
	return ok
}
