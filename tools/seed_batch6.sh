#!/bin/bash
cd /verif
run() { echo "== $*"; python3 tools/seed_eval.py "$@" --scratch 2>&1 | grep -v '"needs_to_manifest"' | tail -22; }
for id in C02 C03 C11 C12 C14 C15 C17 C18 C16 C08 C06; do for v in c d; do run $id /tmp/wt3/$id/SEED/$v $id-$v; done; done
run C04 /tmp/wt3/C04/SEED/c C04-c
run C04 /tmp/wt3/C04/SEED/d C04-d --check-props C04,C13
