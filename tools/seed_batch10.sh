#!/bin/bash
cd /verif
run() { echo "== $*"; python3 tools/seed_eval.py "$@" --scratch 2>&1 | grep -v '"needs_to_manifest"' | tail -22; }
for id in C02 C03 C12 C15 C17 C18 C04; do for v in e f; do run $id /tmp/wt6/$id/SEED/$v $id-$v; done; done
run C08 /tmp/wt6/C08/SEED/e C08-e
run C08 /tmp/wt6/C08/SEED/f C08-f --check-props C08,C03
