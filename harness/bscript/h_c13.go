package bscript

// ---- reference tokeniser (written from the script format definition) ----

type refTok struct {
	op         byte
	start, end int // [start,end) of the whole instruction
	ds, de     int // [ds,de) of the pushed data
}

// refTokenise splits a script into instructions; ok=false when a push is truncated.
func refTokenise(s []byte) (toks []refTok, ok bool) {
	i := 0
	for i < len(s) {
		op := s[i]
		hdr, n := 1, 0
		switch {
		case op >= 1 && op <= 75:
			n = int(op)
		case op == 76:
			if i+2 > len(s) {
				return toks, false
			}
			hdr, n = 2, int(s[i+1])
		case op == 77:
			if i+3 > len(s) {
				return toks, false
			}
			hdr, n = 3, int(s[i+1])|int(s[i+2])<<8
		case op == 78:
			if i+5 > len(s) {
				return toks, false
			}
			hdr, n = 5, int(s[i+1])|int(s[i+2])<<8|int(s[i+3])<<16|int(s[i+4])<<24
		}
		if n > len(s)-i-hdr {
			return toks, false
		}
		toks = append(toks, refTok{op: op, start: i, end: i + hdr + n, ds: i + hdr, de: i + hdr + n})
		i += hdr + n
	}
	return toks, true
}

func refPrefixLen(n int) int {
	switch {
	case n <= 75:
		return 1
	case n <= 255:
		return 2
	case n <= 65535:
		return 3
	}
	return 5
}

func vpartLen(tag string) int {
	big := vparam("BIG", 0)
	k := vnondetLen(tag, 0, 6+2*big)
	return []int{1, 2, 3, 75, 76, 255, 256, 65535, 65536}[k]
}

// vpartBytes: a data item of l bytes; up to 256 bytes fully symbolic, longer ones with symbolic first
// and last two bytes around a concrete filler (a decoder that loses the push boundary then walks
// concrete single-byte opcodes instead of forking on every byte).
func vpartBytes(tag string, l int) []byte {
	if l <= 256 {
		return vnondetBytes(tag, l, l)
	}
	b := make([]byte, l)
	for i := range b {
		b[i] = Op1
	}
	copy(b, vnondetBytes(tag+"-head", 2, 2))
	copy(b[l-2:], vnondetBytes(tag+"-tail", 2, 2))
	return b
}

// C13-P1: EncodeParts / DecodeParts round trip with shortest push forms.
func VH_C13_Parts() {
	n := vnondetLen("nparts", 1, vparam("P", 2))
	var parts [][]byte
	total := 0
	for i := 0; i < n; i++ {
		l := vpartLen("partlen")
		parts = append(parts, vpartBytes("part", l))
		total += refPrefixLen(l) + l
	}
	enc, err := EncodeParts(parts)
	vassert(err == nil, "EncodeParts succeeds")
	if err != nil {
		return
	}
	vassert(len(enc) == total, "each push uses the shortest opcode form")
	dec, err := DecodeParts(enc)
	vassert(err == nil, "DecodeParts of EncodeParts succeeds")
	if err != nil {
		return
	}
	ok := len(dec) == len(parts)
	if ok {
		for i := range parts {
			ok = vand(ok, vbytesEq(dec[i], parts[i]))
		}
	}
	vassert(ok, "DecodeParts(EncodeParts(parts)) == parts")
	// every truncation of the encoding is reported as an error
	cut := vnondetLen("cut", 0, 3)
	if cut > 0 && cut < len(enc) {
		_, terr := DecodeParts(enc[:len(enc)-cut])
		last := len(parts[len(parts)-1])
		if cut <= last {
			vassert(terr != nil, "truncated final push is an error")
		}
	}
	vreach("parts-done")
}

// C13-P2a: DecodeParts agrees with the reference tokeniser on arbitrary scripts.
func VH_C13_DecodeParts() {
	s := vnondetBytes("s", 0, vparam("L", 4))
	toks, rok := refTokenise(s)
	parts, err := DecodeParts(s)
	vassert((err == nil) == rok, "DecodeParts errors exactly on truncated pushes")
	if err != nil {
		vreach("dp-truncated")
		return
	}
	ok := len(parts) == len(toks)
	if ok {
		for i, t := range toks {
			if t.op >= 1 && t.op <= 78 {
				ok = vand(ok, vbytesEq(parts[i], s[t.ds:t.de]))
			} else {
				ok = vand(ok, vbytesEq(parts[i], s[t.start:t.start+1]))
			}
		}
	}
	vassert(ok, "DecodeParts push boundaries equal the reference tokenisation")
	vreach("dp-ok")
}

// C13-P3: hex and JSON renderings convert back to the same bytes.
func VH_C13_HexJSON() {
	s := Script(vnondetBytes("s", 0, vparam("L", 3)))
	h := s.String()
	s2, err := NewFromHexString(h)
	vassert(err == nil, "hex parses back")
	if err == nil {
		vassert(vbytesEq(*s2, s), "NewFromHexString(String()) == s")
	}
	j, err := s.MarshalJSON()
	vassert(err == nil, "MarshalJSON ok")
	var s3 Script
	err = s3.UnmarshalJSON(j)
	vassert(err == nil, "UnmarshalJSON ok")
	if err == nil {
		vassert(vbytesEq(s3, s), "UnmarshalJSON(MarshalJSON()) == s")
	}
	vreach("hexjson-done")
}

// C13-ASM: the assembly rendering of a non-data script built from non-push opcodes and minimal
// multi-byte pushes converts back to the original bytes. Opcode bytes are symbolic (concretised
// per value: the two name tables are maps; every value in first position, a small set after it
// unless ALLOPS=1); push contents are symbolic.
func VH_C13_ASM() {
	n := vnondetLen("elems", 0, vparam("E", 2)) // incl. the empty script
	s := Script{}
	for i := 0; i < n; i++ {
		if vnondetBool("is-push") {
			l := []int{2, 3, 75, 76, 255, 256}[vnondetLen("pushlen", 0, vparam("PL", 3))]
			d := vnondetBytes("pushdata", l, l)
			pre, err := PushDataPrefix(d)
			vassume(err == nil)
			s = append(s, pre...)
			s = append(s, d...)
		} else {
			var op byte
			if i == 0 || vparam("ALLOPS", 0) == 1 {
				op = vnondetU8("op")
				vassume(op == 0 || op > OpPUSHDATA4) // not a data-push opcode
				op = byte(vconcU64(uint64(op)))
			} else {
				// later opcodes from a small set (every opcode value is covered in first position)
				op = []byte{OpFALSE, Op1, OpRETURN, OpDUP, OpCHECKSIG, OpINVALIDOPCODE}[vnondetLen("op-small", 0, 5)]
			}
			s = append(s, op)
		}
	}
	// not a data script (those are rendered in a different, lossy notation)
	vassume(!(len(s) > 1 && (s[0] == OpRETURN || (s[0] == OpFALSE && s[1] == OpRETURN))))
	orig := append(Script{}, s...)
	asm, err := s.ToASM()
	vassert(err == nil, "ToASM succeeds")
	if err != nil {
		return
	}
	s2, err := NewFromASM(asm)
	vassert(err == nil, "NewFromASM(ToASM()) parses")
	if err == nil {
		vassert(vbytesEq(*s2, orig), "NewFromASM(ToASM(s)) == s")
	}
	vreach("asm-done")
}
