package interpreter

import (
	"bytes"
	"encoding/json"
	"fmt"
	"os"
	"testing"

	"github.com/libsv/go-bt/v2"
	"github.com/libsv/go-bt/v2/bscript"
	"github.com/libsv/go-bt/v2/bscript/interpreter/scriptflag"
)

// vRefDbg compares, for every executed non-signature opcode of a program, the reference
// semantics (refExec) with what the engine actually did between BeforeExecuteOpcode and
// AfterExecuteOpcode.
type vRefDbg struct {
	nopDebugger
	pre      *State
	steps    int
	mismatch []string
	name     string
}

func vexecuting(s *State) bool {
	for _, c := range s.CondStack {
		if c != opCondTrue {
			return false
		}
	}
	return !s.Genesis.EarlyReturn
}

func (d *vRefDbg) BeforeExecuteOpcode(s *State) { d.pre = s }
func (d *vRefDbg) AfterExecuteOpcode(s *State) {
	pre := d.pre
	d.pre = nil
	if pre == nil || pre.ScriptIdx >= len(pre.Scripts) || pre.OpcodeIdx >= len(pre.Scripts[pre.ScriptIdx]) {
		return
	}
	pop := pre.Opcode()
	op := pop.op.val
	switch op {
	case bscript.OpCHECKLOCKTIMEVERIFY, bscript.OpCHECKSEQUENCEVERIFY, bscript.OpCHECKSIG, bscript.OpCHECKSIGVERIFY, bscript.OpCHECKMULTISIG, bscript.OpCHECKMULTISIGVERIFY:
		return
	}
	if pop.op.name == "Unformatted Data" {
		return
	}
	ctl := &refCtl{early: pre.Genesis.EarlyReturn}
	for _, c := range pre.CondStack {
		ctl.exec = append(ctl.exec, c == opCondTrue)
	}
	for i := range pre.CondStack {
		seen := false
		if i < len(pre.ElseStack) {
			seen = asBool(pre.ElseStack[i])
		}
		ctl.elseSeen = append(ctl.elseSeen, seen)
	}
	st := &refStacks{d: pre.DataStack, a: pre.AltStack}
	cls := refControl(op, pop.Data, pre.Genesis.AfterGenesis, pre.Flags, ctl, st, pre.NumOps, 1<<40)
	d.steps++
	if cls == refEarlyOK {
		return
	}
	if cls == refOK && len(ctl.exec) != len(s.CondStack) {
		d.mismatch = append(d.mismatch, fmt.Sprintf("%s: %s conditional depth differs", d.name, pop.Name()))
		return
	}
	if cls != refOK {
		d.mismatch = append(d.mismatch, fmt.Sprintf("%s: reference rejects %s which the engine executed", d.name, pop.Name()))
		return
	}
	if len(st.d) != len(s.DataStack) || len(st.a) != len(s.AltStack) {
		d.mismatch = append(d.mismatch, fmt.Sprintf("%s: %s stack depth differs", d.name, pop.Name()))
		return
	}
	for i := range st.d {
		if !bytes.Equal(st.d[i], s.DataStack[i]) {
			d.mismatch = append(d.mismatch, fmt.Sprintf("%s: %s data stack item %d: ref %x engine %x", d.name, pop.Name(), i, st.d[i], s.DataStack[i]))
			return
		}
	}
	for i := range st.a {
		if !bytes.Equal(st.a[i], s.AltStack[i]) {
			d.mismatch = append(d.mismatch, fmt.Sprintf("%s: %s alt stack item %d differs", d.name, pop.Name(), i))
			return
		}
	}
}

// TestVerifRefScripts: oracle validation on the node's script_tests.json (the engine's verdicts on
// these programs are pinned to the node's by TestScripts; here every executed step of every
// program is compared with the reference semantics).
func TestVerifRefScripts(t *testing.T) {
	file, err := os.ReadFile("data/script_tests.json")
	if err != nil {
		t.Fatal(err)
	}
	var tests [][]interface{}
	if err := json.Unmarshal(file, &tests); err != nil {
		t.Fatal(err)
	}
	programs, steps := 0, 0
	var mism []string
	for _, test := range tests {
		if len(test) == 1 {
			continue
		}
		var inputAmt int64
		if v, ok := test[0].([]interface{}); ok {
			if f, ok := v[0].(float64); ok {
				inputAmt = int64(f * 100000000)
			}
			test = test[1:]
		}
		if len(test) < 4 {
			continue
		}
		s0, ok0 := test[0].(string)
		s1, ok1 := test[1].(string)
		fs, ok2 := test[2].(string)
		if !ok0 || !ok1 || !ok2 {
			continue
		}
		scriptSig, err := parseShortForm(s0)
		if err != nil {
			continue
		}
		scriptPubKey, err := parseShortForm(s1)
		if err != nil {
			continue
		}
		flags, err := parseScriptFlags(fs)
		if err != nil {
			continue
		}
		tx := createSpendingTx(scriptSig, scriptPubKey, inputAmt)
		dbg := &vRefDbg{name: fmt.Sprintf("%q %q %s", s0, s1, fs)}
		_ = NewEngine().Execute(
			WithTx(tx, 0, &bt.Output{LockingScript: scriptPubKey, Satoshis: uint64(inputAmt)}),
			WithFlags(flags), WithDebugger(dbg),
		)
		programs++
		steps += dbg.steps
		mism = append(mism, dbg.mismatch...)
	}
	fmt.Printf("VERIF-REF-VALIDATE script_tests.json(programs=%d) vectors=%d match=%d\n", programs, steps, steps-len(mism))
	for i, m := range mism {
		if i < 20 {
			t.Errorf("reference disagrees: %s", m)
		}
	}
	_ = bscript.Op0
	_ = scriptflag.Bip16
}
