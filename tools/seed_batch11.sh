#!/bin/bash
cd /verif
run() { echo "== $*"; python3 tools/seed_eval.py "$@" --scratch 2>&1 | grep -v '"needs_to_manifest"' | tail -22; }
for n in C03-e C12-f C15-e C08-e C08-f; do run ${n%-*} /verif/seeded/$n $n; done
run C07 /verif/seeded/C07-b C07-b
