#!/bin/bash
cd /verif
run() { echo "== $*"; python3 tools/seed_eval.py "$@" --scratch 2>&1 | grep -v '"needs_to_manifest"' | tail -22; }
for n in C02-d C11-d C15-c C15-d C17-d C18-c C08-d C06-c C04-d C16-c; do run ${n%-*} /verif/seeded/$n $n; done
