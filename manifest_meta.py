META = {
    "C01": {
        "text": "Bounded symbolic model checking of the real codec code (SSA): every varint value (full 64 bits), every transaction shape and byte buffer inside the stated size bounds is decided by the SMT solver, not sampled; outside the bounds nothing is claimed.",
        "note": "Trusted: gosym's SSA semantics (validated by native replay of sample paths on every run), z3; SHA-256 is an uninterpreted function (only functional consistency assumed).",
    },
}
META["C09"] = {
    "text": "Bounded symbolic model checking of every binary decoding entry point on an arbitrary symbolic buffer (and on crafted prefixes whose length/count field is 1..9 arbitrary bytes): the solver decides, for all contents at each explored length, that no fault is reachable, that bytes-read never exceeds the input and that every allocation is within 16*len+4096 bytes.",
    "note": "Trusted: gosym SSA semantics incl. its model of append growth; z3. Allocation sizes above the stated exploration cap are checked against the obligation but not executed (cut listed in evidence). JSON entry points are covered under C16's harnesses.",
}
META["C02"] = {
    "text": "Bounded symbolic model checking: the real CalcInputPreimage/CalcInputSignatureHash are executed symbolically for every transaction shape up to the bound, with all field values, the input index and the 8-bit hash type (all 128 FORKID values) symbolic, and compared byte-for-byte with a reference written from the BSV replay-protected-sighash specification; the reference itself is validated natively against the node's 500 sighash_bip143.json vectors on every run.",
    "note": "Trusted: gosym, z3; SHA-256 is an uninterpreted function (functional consistency only), so equality of digests is decided as equality of preimages.",
}
META["C03"] = {
    "text": "As C02 for the legacy algorithm: all 128 non-FORKID hash types, in-range indices, shapes up to the bound; reference written from the original SignatureHash (including the SINGLE out-of-range constant 1) and validated natively against the node's 500 sighash_legacy.json vectors.",
    "note": "Trusted: gosym, z3; SHA-256 uninterpreted. Previous txids are 32 bytes (as the property's quantifier states).",
}
META["C07"] = {
    "text": "Bounded symbolic model checking of totality: (a) one interpreter step (the real Step/executeOpcode and every non-signature opcode handler) from an arbitrary state satisfying the thread invariants - symbolic opcode, flag word, era, stack contents up to the stated depth/size - with every Go fault (index, slice, nil, shift, division, explicit panic, log.Fatal) as a solver obligation plus a progress (ranking) assertion; (b) Engine.Execute entry with every nil/non-nil argument combination, arbitrary input index and flags; (c) the full parse-execute-check pipeline on arbitrary short scripts. Termination for longer scripts follows from the per-step ranking by induction (paper argument).",
    "note": "Trusted: gosym SSA semantics, math/big modelled as exact arbitrary-width bit-vectors, hash functions uninterpreted. Outside the claim: stack items longer than K bytes, MUL/DIV/MOD operands longer than KM bytes, loops cut at U symbolic iterations (NUM2BIN target sizes), signature opcodes (C06), whole scripts longer than L bytes.",
}
META["C08"] = {
    "text": "Bounded symbolic model checking of non-interference: an item is produced by the real DUP / OVER / PICK / TUCK / 2DUP / IFDUP / TOALTSTACK / SPLIT handlers or pushed straight from a script buffer (so the memory sharing is the real one, represented exactly by the engine's heap), then any opcode (symbolic, all flags, both eras) transforms one copy; the solver decides that every item below the operands on the data stack, every alt-stack item and the script bytes keep their values, for all item contents up to K bytes.",
    "note": "Trusted: gosym heap/alias model (slices share cells exactly as Go slices share arrays, append growth follows runtime.growslice), math/big model. Outside the claim: items longer than K bytes, arithmetic opcodes other than a representative subset in the quick tier (all in thorough), signature opcodes, ROLL (moves items by design). Transaction serialisation unchanged by execution is checked in the C04 pipeline harness.",
}
META["C13"] = {
    "text": "Bounded symbolic model checking of the script codecs: EncodeParts/DecodeParts round trip with part lengths on every push boundary (contents symbolic), DecodeParts against an independent reference tokeniser on every byte string up to L bytes (errors exactly on truncated pushes, identical push boundaries), hex and JSON renderings back to the same bytes.",
    "note": "Trusted: gosym, z3. encoding/hex is executed from its own SSA. Not yet covered in this revision: interpreter Parse/Unparse agreement and the ASM round trip (see DESIGN.md).",
}
META["C14"] = {
    "text": "Bounded symbolic model checking of script inspection: every inspection query on every byte string up to L bytes, on arbitrary 22..26-byte strings (non-tokenising queries), and on each standard template with symbolic keys/hashes (reported as its type) and with one byte overwritten by a symbolic byte / one byte removed / a zero-length push inserted at every position (no fault; P2PKH and data classification equal the reference predicates; undecodable scripts never key-bearing).",
    "note": "Trusted: gosym, z3. In the mutation cases template payload bytes are a fixed tokeniser-relevant pattern and only the mutated byte is symbolic (stated cut); Addresses()/ToASM rendering are exercised under C15/C13.",
}
META["C10"] = {
    "text": "Bounded symbolic model checking in integer-arithmetic mode: Change / ChangeToExistingOutput executed for real (including EstimateSizeWithTypes = clone + serialise) on concrete shapes (1..IN P2PKH-funded inputs, 0/1/2/252 outputs incl. data outputs, change scripts of lengths 1,2,24,25,26(,252,253)), with every amount and fee-rate numerator symbolic; the four clauses of the statement are asserted against a reference fee of the specified final size.",
    "note": "Trusted: gosym incl. its Int encoding of 64-bit arithmetic (wrap-around explicit unless an interval analysis shows no overflow), z3 NIA/LIA. Quick tier fixes fee denominators to {1,3,1000}; thorough makes them symbolic in 1..1000. Amounts <= 21e14, rate numerators <= 1e6. ChangeToAddress = NewP2PKHFromAddress (C15) + Change.",
}
META["C11"] = {
    "text": "Bounded symbolic model checking in integer-arithmetic mode: size breakdown, fee formula and sufficiency predicates on transactions with arbitrary short output scripts (data-carrier or not is decided by the solver), and estimation on P2PKH-funded transactions (error clauses; estimate >= size after inputs receive unlocking scripts of the size the library's signer produces, <= 107 bytes).",
    "note": "Trusted: gosym (Int mode), z3. The 107-byte bound on library-made P2PKH unlocking scripts is the signer contract (DER low-S signature <= 71 bytes + hash type, 33-byte key), not re-derived here.",
}
META["C12"] = {
    "text": "Bounded symbolic model checking in integer-arithmetic mode: Tx.Fund with a supplier closure whose behaviour on each of up to CALLS calls is chosen by the solver (exhausted / error / empty batch / 1..2 UTXOs with symbolic fields); every clause of the statement is asserted against ghost state kept by the closure.",
    "note": "Trusted: gosym (Int mode, closures), z3. Supplier histories longer than CALLS calls are outside the claim.",
}
META["C15"] = {
    "text": "Bounded symbolic model checking with base58 as an opaque injective encoding: for every 20-byte hash / 33-byte key and both networks, derived addresses decode to the same hash and every constructor yields the canonical 25-byte script (hash/address recovered); for every 24/25/26-byte payload the solver decides that a wrong length, unsupported version or wrong checksum is rejected by NewAddressFromString / NewP2PKHFromAddress. Every single-character edit (substitute, insert, delete, transpose; all printable characters, all positions) of concrete valid addresses is decided against an independent Base58Check reference decoder; there the engine forks over position and character and executes the real code with real SHA-256.",
    "note": "Trusted: gosym, z3; base58.Encode opaque+injective with Decode its inverse (go-bk radix arithmetic not verified; real algorithm used on concrete strings); SHA-256 uninterpreted on symbolic input. Known finding (not repairable with the pinned tests unedited): the address checksum is never verified by NewAddressFromString.",
}
META["C17"] = {
    "text": "Bounded symbolic model checking of EncodeBIP276 / DecodeBIP276 / ValidateAddress for all 65,025 version/network pairs at once (two symbolic bytes), both prefixes and symbolic payloads up to L bytes: round trip, layout against a reference built from the BIP text, rejection of a wrong checksum character and of non-hex characters at every position. The regular expression is executed by a backtracking matcher model in which every character-class test is a solver-decided fork.",
    "note": "Trusted: gosym, z3, the regexp matcher model (validated by native replay), compact encoding/hex model, SHA-256 uninterpreted. Known finding: the encoder writes network before version (pinned by TestEncodeBIP276).",
}
META["C16"] = {
    "text": "Bounded symbolic model checking with encoding/json modelled at the value level (custom Marshal/UnmarshalJSON methods of go-bt are executed for real): library and node-style JSON of transactions (unsigned / partially signed / signed inputs), outputs, UTXOs and UTXO lists: marshal never faults, round trips preserve serialisation, ids, scripts and amounts. Amount conversions are decided twice: the exact IEEE-754 encoding (QF_FP) provides counterexamples (every sat is a real amount, replayed natively); the obligations it cannot finish are discharged under a sound real-number over-approximation (each float operation within relative error 2^-53) over the whole range 0..21e14.",
    "note": "Trusted: gosym, z3 (QF_FP, LRA), the encoding/json contract (Marshal then Unmarshal of the same wire struct types is the identity; text and float formatting not modelled), compact encoding/hex model. The ambiguous no-input/no-output/locktime 000000EF shape is excluded as in C01.",
}
META["C19"] = {
    "text": "Bounded symbolic model checking: from one arbitrary symbolic interpreter state the real Step is executed twice - without a debugger and with a recording debugger that scribbles over every stack slice and counter of every snapshot it receives; the solver decides equality of verdict, stacks and control state for every opcode, and the callback log is checked against the documented order; whole executions of short scripts are compared the same way through Engine.Execute.",
    "note": "Trusted: gosym alias-exact heap (a snapshot sharing memory with the thread would make the two runs differ). Bounds as C07 (stack depth, item size, loop cut); signature opcodes excluded; debug.NewDebugger fan-out helper not covered.",
}
META["C18"] = {
    "text": "Lock discipline decided by schedule queries: each FeeQuote / FeeQuotes method is executed symbolically on a shared object with mutex operations and every access to the shared cells and maps logged; for every ordered pair of methods (self-pairs included) and every conflicting access pair an SMT query over integer time stamps (program order, RWMutex exclusion) asks for a schedule in which the two accesses are adjacent - unsat for all pairs = data-race free for two threads with one call each; a sat answer is confirmed by running that pair under the Go race detector. Engine statelessness: a shared-write monitor over every explored Engine.Execute path shows no package-level state is written, so concurrent executions on distinct transactions cannot interfere.",
    "note": "Level is bounded model checking of two-call schedules; more than two concurrent calls are covered by the reduction argument in DESIGN.md (the only synchronisation is the two mutexes; no method blocks on state), not explored. Trusted: gosym event extraction (sync.RWMutex as lock events, encoding/json model reads the map), Go memory model edges Unlock->Lock. Writes inside stubbed dependencies are outside the claim.",
}
META["C05"] = {
    "text": "Bounded symbolic model checking of one interpreter step against a reference semantics written from the BSV script rules: (a) every non-signature, non-conditional opcode on an executing branch from an arbitrary state (symbolic opcode, flag word, era, stack items up to K bytes, op counter) - verdict class and both stacks equal the reference; (b) numeric-count opcodes with count operands up to 9 bytes; (c) every opcode from an arbitrary conditional state (nesting, ELSE seen, early return pending) - verdict, nesting depth, whether the next instruction executes, stacks. The reference is validated natively on every run against all 11,449 executed steps of the node's 1,438 script_tests.json programs. Whole-program equivalence follows by induction over steps (paper argument).",
    "note": "Trusted: gosym, z3, math/big as exact arbitrary-width bit-vectors (shared by implementation and reference: what is compared is everything go-bt adds around it - decoding, limits, minimal encoding, clamping, truthiness), hash functions uninterpreted. Outside the claim: items > K bytes, MUL/DIV/MOD operands > KM bytes, CLTV/CSV locktime rules, signature opcodes (C06), P2SH redeem-script switching and end-of-script clean-stack checks, real 1000-deep stacks / 500-op scripts.",
}
NOT_APPLICABLE = {}
