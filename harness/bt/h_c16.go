package bt

import (
	"encoding/json"

	"github.com/libsv/go-bt/v2/bscript"
)

func vjsonScript(tag string) *bscript.Script {
	switch vnondetLen(tag+"-kind", 0, 2+vparam("INSC", 1)) {
	case 3: // a P2PKH inscription followed by one of six trailers
		s := append(bscript.Script{}, *vp2pkhScript(tag + "-ipkh")...)
		s = append(s, 0x00, 0x63, 0x03, 0x6f, 0x72, 0x64, 0x51, 0x01, 0x41, 0x00, 0x01, 0x42, 0x68)
		switch vnondetLen(tag+"-trail", 0, 5) { // concrete trailers: a symbolic one forks per opcode class
		case 4:
			s = append(s, 0x4d, 0x01) // PUSHDATA2 cut inside its length field
		case 5:
			s = append(s, 0x4e, 0x01, 0x00, 0x00) // PUSHDATA4 cut inside its length field
		case 1:
			s = append(s, 0x4c, 0x00) // zero-length PUSHDATA1
		case 2:
			s = append(s, 0x00)
		case 3:
			s = append(s, 0x4c) // truncated push: the script does not decode
		}
		return &s
	case 0:
		return vp2pkhScript(tag + "-pkh")
	case 1:
		s := bscript.Script{0x00, 0x6a, 0x02}
		s = append(s, vnondetBytes(tag+"-data", 2, 2)...)
		return &s
	}
	s := bscript.Script{}
	return &s
}

func vjsonTx() *Tx {
	tx := &Tx{Version: vnondetU32("version"), LockTime: vnondetU32("locktime")}
	nIn := vnondetLen("nin", 0, vparam("IN", 1))
	nOut := vnondetLen("nout", 0, vparam("OUT", 1))
	for i := 0; i < nIn; i++ {
		in := &Input{previousTxID: vnondetBytes("txid", 32, 32), PreviousTxOutIndex: vnondetU32("vout"), SequenceNumber: vnondetU32("seq")}
		switch vnondetLen("sigstate", 0, 2) {
		case 0: // not yet signed: nil unlocking script
		case 1:
			in.UnlockingScript = &bscript.Script{}
		case 2:
			s := bscript.Script{0x02}
			s = append(s, vnondetBytes("sigbytes", 2, 2)...)
			in.UnlockingScript = &s
		}
		tx.Inputs = append(tx.Inputs, in)
	}
	for i := 0; i < nOut; i++ {
		tx.Outputs = append(tx.Outputs, &Output{Satoshis: vnondetRange("sats", 0, vMaxSats), LockingScript: vjsonScript("lock")})
	}
	if nIn == 0 && nOut == 0 {
		vassume(tx.LockTime != 0xEF000000) // the shape the extended-format marker makes ambiguous (excluded, see C01)
	}
	return tx
}

// C16-A: library JSON of a transaction (signed, partially signed, unsigned): marshal never
// faults and the round trip preserves serialisation and id.
func VH_C16_TxJSON() {
	tx := vjsonTx()
	b, err := json.Marshal(tx)
	vassert(err == nil, "C16: library JSON marshals")
	if err != nil {
		return
	}
	var tx2 Tx
	err = json.Unmarshal(b, &tx2)
	vassert(err == nil, "C16: library JSON unmarshals")
	if err == nil {
		vassert(vbytesEq(tx2.Bytes(), tx.Bytes()), "C16: library JSON round trip preserves the serialisation")
		vassert(tx2.TxID() == tx.TxID(), "C16: library JSON round trip preserves the id")
	}
	vreach("txjson-done")
}

// C16-B: node-style JSON of a transaction.
func VH_C16_TxNodeJSON() {
	tx := vjsonTx()
	b, err := json.Marshal(tx.NodeJSON())
	vassert(err == nil, "C16: node JSON marshals")
	if err != nil {
		return
	}
	tx2 := &Tx{}
	err = json.Unmarshal(b, tx2.NodeJSON())
	vassert(err == nil, "C16: node JSON unmarshals")
	if err == nil {
		vassert(vbytesEq(tx2.Bytes(), tx.Bytes()), "C16: node JSON round trip preserves the serialisation")
	}
	vreach("txnode-done")
}

// C16-C: outputs and UTXOs, both dialects, including amounts.
func VH_C16_OutputUTXO() {
	sats := vnondetRange("sats", 0, vMaxSats)
	switch vnondetLen("what", 0, 4) {
	case 4: // node JSON of outputs with every script kind (amount fixed: the float path is case 1)
		o := &Output{Satoshis: 100000000, LockingScript: vjsonScript("lock")}
		b, err := json.Marshal(o.NodeJSON())
		vassert(err == nil, "C16: output with any script marshals (node)")
		o2 := &Output{}
		err = json.Unmarshal(b, o2.NodeJSON())
		vassert(err == nil && vbytesEq(*o2.LockingScript, *o.LockingScript) && o2.Satoshis == o.Satoshis, "C16: output node JSON round trip (script kinds)")
	case 0:
		o := &Output{Satoshis: sats, LockingScript: vjsonScript("lock")}
		b, err := json.Marshal(o)
		vassert(err == nil, "C16: output marshals")
		var o2 Output
		err = json.Unmarshal(b, &o2)
		vassert(err == nil && o2.Satoshis == o.Satoshis && vbytesEq(*o2.LockingScript, *o.LockingScript), "C16: output library JSON round trip")
	case 1:
		o := &Output{Satoshis: sats, LockingScript: vp2pkhScript("lock")}
		b, err := json.Marshal(o.NodeJSON())
		vassert(err == nil, "C16: output marshals (node)")
		o2 := &Output{}
		err = json.Unmarshal(b, o2.NodeJSON())
		vassert(err == nil && vbytesEq(*o2.LockingScript, *o.LockingScript), "C16: output node JSON round trip preserves the script")
		if err == nil {
			vassert(o2.Satoshis == o.Satoshis, "C16: output node JSON round trip preserves the amount")
		}
	case 2:
		u := &UTXO{TxID: vnondetBytes("txid", 32, 32), Vout: vnondetU32("vout"), Satoshis: sats, LockingScript: vjsonScript("lock")}
		b, err := json.Marshal(u)
		vassert(err == nil, "C16: utxo marshals")
		var u2 UTXO
		err = json.Unmarshal(b, &u2)
		vassert(err == nil && u2.Satoshis == u.Satoshis && u2.Vout == u.Vout && vbytesEq(u2.TxID, u.TxID) && vbytesEq(*u2.LockingScript, *u.LockingScript), "C16: utxo library JSON round trip")
	case 3:
		u := &UTXO{TxID: vnondetBytes("txid", 32, 32), Vout: vnondetU32("vout"), Satoshis: sats, LockingScript: vp2pkhScript("lock")}
		w := &UTXO{TxID: vnondetBytes("txid2", 32, 32), Vout: vnondetU32("vout2"), Satoshis: vnondetRange("sats2", 0, vMaxSats), LockingScript: vp2pkhScript("lock2")}
		us := UTXOs{u, w}
		b, err := json.Marshal(us.NodeJSON())
		vassert(err == nil, "C16: utxo list marshals (node)")
		var us2 UTXOs
		err = json.Unmarshal(b, us2.NodeJSON())
		vassert(err == nil && len(us2) == 2, "C16: utxo list node JSON unmarshals")
		if err == nil && len(us2) == 2 {
			vassert(us2[0].Vout == u.Vout && vbytesEq(us2[0].TxID, u.TxID) && vbytesEq(*us2[0].LockingScript, *u.LockingScript), "C16: utxo node JSON round trip preserves fields")
			vassert(us2[1].Vout == w.Vout && vbytesEq(us2[1].TxID, w.TxID) && vbytesEq(*us2[1].LockingScript, *w.LockingScript), "C16: utxo list element 2 preserved")
			vassert(us2[0].Satoshis == u.Satoshis, "C16: utxo node JSON round trip preserves the amount")
			vassert(us2[1].Satoshis == w.Satoshis, "C16: utxo list element 2 amount preserved")
		}
	}
	vreach("outputjson-done")
}

// C09 (JSON entry points): node-style documents with any optional part missing never fault.
func VH_C09_NodeJSONDocs() {
	// every numeric field of the document is arbitrary (sizes, positions and counts are untrusted too)
	doc := nodeTxJSON{Version: vnondetU32("version"), LockTime: vnondetU32("locktime"), Size: vnondetInt("size")}
	if vnondetBool("with-hex") {
		doc.Hex = "zz"
	}
	nIn := vnondetLen("nin", 0, 1)
	for i := 0; i < nIn; i++ {
		in := &nodeInputJSON{TxID: "00", Vout: vnondetU32("vout"), Sequence: vnondetU32("sequence")}
		if vnondetBool("in-nil") {
			in = nil
		} else if vnondetBool("has-scriptsig") {
			in.ScriptSig = &struct {
				Asm string `json:"asm"`
				Hex string `json:"hex"`
			}{Hex: "51"}
		}
		doc.Inputs = append(doc.Inputs, in)
	}
	nOut := vnondetLen("nout", 0, 2)
	for i := 0; i < nOut; i++ {
		out := &nodeOutputJSON{Index: vnondetInt("n")}
		if vnondetBool("out-nil") {
			out = nil
		} else if vnondetBool("has-spk") {
			out.ScriptPubKey = &struct {
				Asm     string `json:"asm"`
				Hex     string `json:"hex"`
				ReqSigs int    `json:"reqSigs,omitempty"`
				Type    string `json:"type"`
			}{Hex: "51"}
		}
		doc.Outputs = append(doc.Outputs, out)
	}
	b, err := json.Marshal(doc)
	vassume(err == nil)
	tx := &Tx{}
	_ = json.Unmarshal(b, tx.NodeJSON())
	if nOut >= 1 && doc.Outputs[0] != nil {
		ob, err := json.Marshal(doc.Outputs[0])
		vassume(err == nil)
		o := &Output{}
		_ = json.Unmarshal(ob, o.NodeJSON())
	}
	vreach("nodedocs-done")
}

// C16-D: lists of transactions, both dialects.
func VH_C16_TxsJSON() {
	n := vnondetLen("ntx", 0, vparam("NTX", 2))
	var txs Txs
	for i := 0; i < n; i++ {
		txs = append(txs, vjsonTx())
	}
	if vnondetBool("node-dialect") {
		b, err := json.Marshal(txs.NodeJSON())
		vassert(err == nil, "C16: node JSON of a transaction list marshals")
		if err != nil {
			return
		}
		var back Txs
		err = json.Unmarshal(b, back.NodeJSON())
		vassert(err == nil && len(back) == n, "C16: node JSON of a transaction list unmarshals to as many transactions")
		if err == nil && len(back) == n {
			ok := true
			for i := range txs {
				ok = vand(ok, vbytesEq(back[i].Bytes(), txs[i].Bytes()))
			}
			vassert(ok, "C16: node JSON round trip of a transaction list preserves every serialisation")
		}
		vreach("txs-node-done")
		return
	}
	b, err := json.Marshal(txs)
	vassert(err == nil, "C16: library JSON of a transaction list marshals")
	if err != nil {
		return
	}
	var back Txs
	err = json.Unmarshal(b, &back)
	vassert(err == nil && len(back) == n, "C16: library JSON of a transaction list unmarshals to as many transactions")
	if err == nil && len(back) == n {
		ok := true
		for i := range txs {
			ok = vand(ok, vbytesEq(back[i].Bytes(), txs[i].Bytes()))
		}
		vassert(ok, "C16: library JSON round trip of a transaction list preserves every serialisation")
	}
	vreach("txs-lib-done")
}
