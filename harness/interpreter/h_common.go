package interpreter

import (
	"github.com/libsv/go-bt/v2"
	"github.com/libsv/go-bt/v2/bscript"
	"github.com/libsv/go-bt/v2/bscript/interpreter/scriptflag"
)

// vopScript builds a one-instruction locking script for opcode op. Direct pushes carry
// exactly (or one byte short of) their data; PUSHDATA forms carry symbolic length bytes
// whose claimed length is at least the data supplied (exact = well formed, larger = truncated).
func vopScript(op byte, maxData int) bscript.Script {
	s := bscript.Script{op}
	switch {
	case op >= 1 && op <= 75:
		n := int(op)
		if vnondetBool("truncated") {
			n--
		}
		s = append(s, vnondetBytes("pushdata", n, n)...)
	case op == bscript.OpPUSHDATA1 || op == bscript.OpPUSHDATA2 || op == bscript.OpPUSHDATA4:
		w := 1
		if op == bscript.OpPUSHDATA2 {
			w = 2
		} else if op == bscript.OpPUSHDATA4 {
			w = 4
		}
		if vparam("PUSHB", 0) == 1 {
			// well-formed pushes with lengths on the boundaries between the push forms
			n := []int{0, 1, 75, 76, 255, 256}[vnondetLen("pushlen-boundary", 0, 5)]
			if w == 1 && n > 255 {
				n = 255
			}
			for i := 0; i < w; i++ {
				s = append(s, byte(n>>(8*uint(i))))
			}
			return append(s, vnondetBytes("pushdata", n, n)...)
		}
		lb := vnondetBytes("pushlen", 0, w)
		data := vnondetBytes("pushdata", 0, maxData)
		if len(lb) == w {
			l := uint64(0)
			for i := 0; i < w; i++ {
				l |= uint64(lb[i]) << (8 * uint(i))
			}
			vassume(l >= uint64(len(data)))
		}
		s = append(s, lb...)
		s = append(s, data...)
	}
	return s
}

func vstackItems(tag string, depth, k int) [][]byte {
	n := vnondetLen(tag+"-depth", 0, depth)
	var items [][]byte
	for i := 0; i < n; i++ {
		items = append(items, vnondetBytes(tag, 0, k))
	}
	return items
}

// varity: number of data-stack operands an opcode can consume (upper bound used to size the
// symbolic stack; 3 stands in for the data-dependent PICK/ROLL).
func varity(op byte) int {
	switch {
	case op <= bscript.Op16 || op == bscript.OpNOP || op == bscript.OpELSE || op == bscript.OpENDIF || op == bscript.OpRETURN:
		return 0
	case op == bscript.OpIF || op == bscript.OpNOTIF || op == bscript.OpVERIFY || op == bscript.OpTOALTSTACK:
		return 1
	case op == bscript.OpFROMALTSTACK || op == bscript.OpDEPTH || op == bscript.OpCODESEPARATOR:
		return 0
	case op == bscript.Op2DROP || op == bscript.Op2DUP:
		return 2
	case op == bscript.Op3DUP || op == bscript.OpROT || op == bscript.OpWITHIN:
		return 3
	case op == bscript.Op2OVER || op == bscript.Op2SWAP:
		return 4
	case op == bscript.Op2ROT:
		return 6
	case op == bscript.OpIFDUP || op == bscript.OpDROP || op == bscript.OpDUP:
		return 1
	case op == bscript.OpNIP || op == bscript.OpOVER || op == bscript.OpSWAP || op == bscript.OpTUCK:
		return 2
	case op == bscript.OpPICK || op == bscript.OpROLL:
		return 3
	case op >= bscript.OpCAT && op <= bscript.OpNUM2BIN:
		return 2
	case op >= bscript.OpBIN2NUM && op <= bscript.OpINVERT:
		return 1
	case op >= bscript.OpAND && op <= bscript.OpEQUALVERIFY:
		return 2
	case op >= bscript.Op1ADD && op <= bscript.Op0NOTEQUAL:
		return 1
	case op >= bscript.OpADD && op <= bscript.OpMAX:
		return 2
	case op >= bscript.OpRIPEMD160 && op <= bscript.OpHASH256:
		return 1
	case op == bscript.OpCHECKLOCKTIMEVERIFY || op == bscript.OpCHECKSEQUENCEVERIFY:
		return 1
	}
	return 0
}

type vStepOpts struct {
	depth, k, adepth, cdepth, extra int
	executing                       bool // the branch is executing: no early return pending (condition stack empty unless cdepth > 0)
	bigTop                          int  // >0: the top operand may be up to bigTop bytes long (numeric count operands)
	inUnlock                        bool // place the instruction in the unlocking script, behind two NOPs, with a symbolic code-separator position
	withTx                  bool
	sigOps                  bool
}

// vflags returns a symbolic flag word normalised the way thread.apply leaves it
// (FORKID implies STRICTENC; CLEANSTACK requires BIP16), without forking on any bit.
func vflags() scriptflag.Flag {
	f := scriptflag.Flag(vnondetU32("flags")) & 0xffff
	f |= (f & scriptflag.EnableSighashForkID) << 1 // EnableSighashForkID (bit 11) -> VerifyStrictEncoding (bit 12)
	vassume(f&scriptflag.VerifyCleanStack == 0 || f&scriptflag.Bip16 != 0)
	return f
}

// vstepThread builds the state of a thread positioned at a one-instruction locking script.
// It mirrors what thread.apply establishes (checked separately by VH_C07_ApplyAgrees) but
// keeps the flag word symbolic instead of forking on every flag apply looks at; the run-time
// state (stacks, condition stacks, op count) is arbitrary within the state invariants.
func vstepThread(o vStepOpts) (*thread, byte, bool) {
	flags := vflags()
	after := flags&scriptflag.UTXOAfterGenesis != 0
	op := vnondetU8("op")
	if !o.sigOps {
		vassume(op != bscript.OpCHECKSIG && op != bscript.OpCHECKSIGVERIFY && op != bscript.OpCHECKMULTISIG && op != bscript.OpCHECKMULTISIGVERIFY)
	}
	if only := vparam("OP", -1); only >= 0 {
		vassume(int(op) == only)
	}
	vassume(int(op) >= vparam("OPLO", 0) && int(op) <= vparam("OPHI", 255))
	op = byte(vconcU64(uint64(op)))
	ls := vopScript(op, o.k)
	th := &thread{flags: flags, cfg: &beforeGenesisConfig{}, elseStack: &nopBoolStack{}}
	if after {
		th.elseStack = &stack{debug: &nopDebugger{}, sh: &nopStateHandler{}}
		th.afterGenesis = true
		th.cfg = &afterGenesisConfig{}
	}
	if o.withTx {
		tx := &bt.Tx{Version: vnondetU32("version"), LockTime: vnondetU32("locktime")}
		in := &bt.Input{PreviousTxOutIndex: vnondetU32("vout"), SequenceNumber: vnondetU32("seq")}
		_ = in.PreviousTxIDAdd(vnondetBytes("txid", 32, 32))
		tx.Inputs = []*bt.Input{in}
		th.tx, th.inputIdx = tx, 0
		th.prevOutput = &bt.Output{Satoshis: vnondetU64("value"), LockingScript: &ls}
		in.PreviousTxScript, in.PreviousTxSatoshis = th.prevOutput.LockingScript, th.prevOutput.Satoshis
	}
	th.scriptParser = &DefaultOpcodeParser{ErrorOnCheckSig: th.tx == nil}
	ps, err := th.scriptParser.Parse(&ls)
	if err != nil {
		return nil, op, false
	}
	th.scripts = []ParsedScript{{}, ps}
	th.scriptIdx = 1
	if o.inUnlock {
		one := bscript.Script{bscript.Op1}
		lps, _ := th.scriptParser.Parse(&one)
		nop := ParsedOpcode{op: opcodeArray[bscript.OpNOP]}
		th.scripts = []ParsedScript{append(ParsedScript{nop, nop}, ps...), lps}
		th.scriptIdx, th.scriptOff = 0, 2
		th.lastCodeSep = vnondetLen("lastcodesep", 0, 1)
	}
	md := flags&scriptflag.VerifyMinimalData != 0
	th.dstack = newStack(th.cfg, md)
	th.astack = newStack(th.cfg, md)
	th.debug = &nopDebugger{}
	th.state = &nopStateHandler{}
	d, k := varity(op)+o.extra, o.k
	if d > o.depth {
		d = o.depth
	}
	if d >= 4 && k > 1 {
		k = 1
	}
	if (op == bscript.OpMUL || op == bscript.OpDIV || op == bscript.OpMOD) && k > vparam("KM", 1) {
		k = vparam("KM", 1) // symbolic x symbolic multiplication / division: operand size bounded separately
	}
	th.dstack.stk = vstackItems("d", d, k)
	if o.bigTop > 0 && len(th.dstack.stk) > 0 {
		th.dstack.stk[len(th.dstack.stk)-1] = vnondetBytes("bigtop", 0, o.bigTop)
	}
	if op == bscript.OpFROMALTSTACK || op == bscript.OpTOALTSTACK {
		th.astack.stk = vstackItems("a", o.adepth, o.k)
	}
	nc := vnondetLen("cond-depth", 0, o.cdepth)
	for i := 0; i < nc; i++ {
		c := vnondetLen("cond", 0, 2)
		th.condStack = append(th.condStack, c)
		if th.afterGenesis {
			th.elseStack.PushBool(vnondetBool("else"))
		}
	}
	th.numOps = vnondetInt("numops")
	vassume(th.numOps >= 0 && th.numOps <= th.cfg.MaxOps())
	if th.afterGenesis && !o.executing {
		th.earlyReturnAfterGenesis = vnondetBool("earlyreturn")
	}
	return th, op, true
}
