#!/bin/bash
# usage: try_patch.sh <patch.diff|REV:<rev>> <check args...>   — run ./check against a scratch worktree of /repo (HEAD + patch, or another revision)
H="$(cd "$(dirname "$0")/.." && pwd)"; cd "$H"
W=/tmp/trypatch-$$; P="$1"; shift
case "$P" in REV:*) git -C /repo worktree add -q --detach $W "${P#REV:}";; *) git -C /repo worktree add -q --detach $W ${TRY_BASE:-HEAD} && git -C $W apply "$P" || { git -C /repo worktree remove --force $W; exit 3; };; esac
VERIF_REPO=$W VERIF_EVIDENCE_DIR=$H/work/ev VERIF_REPLAY_DIR=$H/work/rp timeout ${TRY_TIMEOUT:-900} ./check "$@" 2>&1 | grep -v WARNING | grep "^gosym\|VIOLATION\|PROBLEM\|^check\|KNOWN\|MISMATCH" | cut -c1-400
git -C /repo worktree remove --force $W
