#!/bin/bash
cd /verif
run() { echo "== $*"; python3 tools/seed_eval.py "$@" --scratch 2>&1 | grep -v '"needs_to_manifest"' | tail -22; }
run C05 /tmp/wt/C05/SEED/b C05-b
run C20 /tmp/wt/C20/SEED/b C20-b
run C18 /tmp/wt/C18/SEED/b C18-b
run C17 /verif/seeded/C17-a C17-a
run C17 /verif/seeded/C17-b C17-b
run C16 /verif/seeded/C16-a C16-a
run C16 /verif/seeded/C16-b C16-b
run C06 /verif/seeded/C06-a C06-a
run C06 /verif/seeded/C06-b C06-b
run C07 /verif/seeded/C07-b C07-b --check-props C07,C06
for id in C01 C09 C13 C19 C07 C10 C20; do for v in c d; do run $id /tmp/wt3/$id/SEED/$v $id-$v; done; done
run C05 /tmp/wt3/C05/SEED/c C05-c --check-props C05,C08
run C05 /tmp/wt3/C05/SEED/d C05-d
