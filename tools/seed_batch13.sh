#!/bin/bash
# re-evaluation of the wave-7 seeds that the checks missed at first, after strengthening (C04-g: patch rebased onto the tree with the C03 fix)
H="$(cd "$(dirname "$0")/.." && pwd)"; cd "$H"
export GOFLAGS=-mod=mod GOPROXY=off GOSUMDB=off GOTOOLCHAIN=local
[ -x bin/gosym ] || (cd engine && go build -o ../bin/gosym .)
run() { echo "== $*"; python3 tools/seed_eval.py "$@" --scratch 2>&1 | grep -v '"needs_to_manifest"' | tail -22; }
run C02 /tmp/seedg/C02-out C02-g
run C09 /tmp/seedg/C09-out C09-g
run C11 /tmp/seedg/C11-out C11-g
run C14 /tmp/seedg/C14-out C14-g
run C17 /tmp/seedg/C17-out C17-g
run C08 /tmp/seedg/C08-out C08-g
run C18 /tmp/seedg/C18-out C18-g --check-props C18,C02
run C04 /tmp/seedg/C04-out C04-g --check-props C04,C03
