#!/bin/bash
cd /verif
for n in C15-a C08-b; do id=${n%-*}; echo "=== $n"; python3 tools/seed_eval.py $id /verif/seeded/$n $n --scratch 2>&1 | tail -25; done
for id in "$@"; do for v in a b; do if [ -f /tmp/wt/$id/SEED/$v/patch.diff ]; then echo "=== $id-$v"; python3 tools/seed_eval.py $id /tmp/wt/$id/SEED/$v $id-$v --scratch 2>&1 | tail -25; fi; done; done
