package interpreter

import "github.com/libsv/go-bt/v2/bscript"

// C13-P2b: the interpreter's parser: Unparse(Parse(s)) == s for every script the parser accepts,
// errors exactly on truncated pushes, and agreement with bscript.DecodeParts on push boundaries
// for scripts without a top-level OP_RETURN.
func vrefTruncated(s []byte) bool {
	i := 0
	depth := 0
	for i < len(s) {
		op := s[i]
		hdr, n := 1, 0
		switch {
		case op >= 1 && op <= 75:
			n = int(op)
		case op == 76:
			if i+2 > len(s) {
				return true
			}
			hdr, n = 2, int(s[i+1])
		case op == 77:
			if i+3 > len(s) {
				return true
			}
			hdr, n = 3, int(s[i+1])|int(s[i+2])<<8
		case op == 78:
			if i+5 > len(s) {
				return true
			}
			hdr, n = 5, int(s[i+1])|int(s[i+2])<<8|int(s[i+3])<<16|int(s[i+4])<<24
		case op == bscript.OpIF || op == bscript.OpNOTIF || op == bscript.OpVERIF || op == bscript.OpVERNOTIF:
			depth++
		case op == bscript.OpENDIF:
			depth--
		case op == bscript.OpRETURN && depth == 0:
			return false // everything after a top-level OP_RETURN is opaque data
		}
		if n > len(s)-i-hdr {
			return true
		}
		i += hdr + n
	}
	return false
}

func VH_C13_ParseUnparse() {
	vparseUnparse(bscript.Script(vnondetBytes("s", 0, vparam("L", 2))))
}

// data after a top-level OP_RETURN (optionally behind one ordinary opcode / push)
func VH_C13_ParseReturn() {
	var s bscript.Script
	switch vnondetLen("lead", 0, 2) {
	case 1:
		s = bscript.Script{bscript.OpFALSE}
	case 2:
		s = bscript.Script{1, vnondetU8("pushed")}
	}
	s = append(s, bscript.OpRETURN)
	s = append(s, vnondetBytes("tail", 0, vparam("T", 4))...)
	vparseUnparse(s)
}

func vparseUnparse(s bscript.Script) {
	p := &DefaultOpcodeParser{}
	ps, err := p.Parse(&s)
	vassert((err != nil) == vrefTruncated(s), "Parse errors exactly on truncated pushes")
	if err != nil {
		return
	}
	out, err := p.Unparse(ps)
	vassert(err == nil, "Unparse succeeds on parsed scripts")
	if err == nil {
		vassert(vbytesEq(*out, s), "Unparse(Parse(s)) == s")
	}
	// tokeniser agreement (no OP_RETURN anywhere: DecodeParts deliberately has no OP_RETURN handling)
	hasRet := false
	for _, op := range ps {
		if op.op.val == bscript.OpRETURN {
			hasRet = true
		}
	}
	if !hasRet {
		parts, derr := bscript.DecodeParts(s)
		vassert(derr == nil && len(parts) == len(ps), "both tokenisers find the same number of instructions")
		if derr == nil && len(parts) == len(ps) {
			ok := true
			for i, op := range ps {
				if op.op.val >= 1 && op.op.val <= bscript.OpPUSHDATA4 {
					ok = vand(ok, vbytesEq(parts[i], op.Data))
				}
			}
			vassert(ok, "both tokenisers agree on every push")
		}
	}
	vreach("parse-ok")
}

// C13-P2c: every push form at every length: one push of n bytes (n = 1..75 direct, and 75/76/255/256
// through OP_PUSHDATA1/2) followed by one opcode byte: the interpreter's parser yields exactly two
// instructions, the first carrying the n bytes, agrees with bscript.DecodeParts, and unparses to the
// same bytes. The length is concretised (one path per length); the contents are symbolic.
func VH_C13_ParsePush() {
	var s bscript.Script
	var n int
	switch vnondetLen("form", 0, 2) {
	case 0:
		n = int(vconcU64(uint64(vnondetRange("direct-len", 1, 75))))
		s = append(s, byte(n))
	case 1:
		n = []int{75, 76, 255}[vnondetLen("pd1-len", 0, 2)]
		s = append(s, bscript.OpPUSHDATA1, byte(n))
	case 2:
		n = []int{255, 256}[vnondetLen("pd2-len", 0, 1)]
		s = append(s, bscript.OpPUSHDATA2, byte(n), byte(n>>8))
	}
	data := vnondetBytes("data", n, n)
	s = append(s, data...)
	s = append(s, bscript.OpDUP)
	orig := vcopy(s)
	p := &DefaultOpcodeParser{}
	ps, err := p.Parse(&s)
	vassert(err == nil, "push forms: a well-formed push parses")
	if err != nil {
		return
	}
	vassert(len(ps) == 2 && vbytesEq(ps[0].Data, data) && ps[1].op.val == bscript.OpDUP, "push forms: the parser takes exactly the pushed bytes")
	parts, derr := bscript.DecodeParts(s)
	vassert(derr == nil && len(parts) == 2 && vbytesEq(parts[0], data), "push forms: DecodeParts takes exactly the pushed bytes")
	us, err := p.Unparse(ps)
	vassert(err == nil && us != nil && vbytesEq(*us, orig), "push forms: Unparse(Parse(s)) == s")
	vreach("parsepush-done")
}
