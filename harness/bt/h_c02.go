package bt

import (
	"github.com/libsv/go-bt/v2/sighash"
)

// ---- reference digests, written from the specifications (not from go-bt) ----

func refLE32(v uint32) []byte { return []byte{byte(v), byte(v >> 8), byte(v >> 16), byte(v >> 24)} }
func refLE64(v uint64) []byte {
	return []byte{byte(v), byte(v >> 8), byte(v >> 16), byte(v >> 24), byte(v >> 32), byte(v >> 40), byte(v >> 48), byte(v >> 56)}
}
func refCompact(n int) []byte {
	switch {
	case n < 253:
		return []byte{byte(n)}
	case n < 0x10000:
		return []byte{0xfd, byte(n), byte(n >> 8)}
	default:
		return []byte{0xfe, byte(n), byte(n >> 8), byte(n >> 16), byte(n >> 24)}
	}
}
func refRev(b []byte) []byte {
	r := make([]byte, len(b))
	for i := range b {
		r[len(b)-1-i] = b[i]
	}
	return r
}

type refIn struct {
	txid   []byte // display order (as go-bt stores it)
	vout   uint32
	seq    uint32
	script []byte // unlocking script (unused by the digests)
}
type refOut struct {
	value  uint64
	script []byte
}
type refTx struct {
	version, locktime uint32
	ins               []refIn
	outs              []refOut
}

func refFromTx(tx *Tx) *refTx {
	r := &refTx{version: tx.Version, locktime: tx.LockTime}
	for _, in := range tx.Inputs {
		r.ins = append(r.ins, refIn{txid: in.previousTxID, vout: in.PreviousTxOutIndex, seq: in.SequenceNumber, script: scriptBytes(in.UnlockingScript)})
	}
	for _, o := range tx.Outputs {
		r.outs = append(r.outs, refOut{value: o.Satoshis, script: scriptBytes(o.LockingScript)})
	}
	return r
}

// refPreimage143: BSV replay-protected sighash (replay-protected-sighash.md), hash type as 32-bit value.
func refPreimage143(t *refTx, idx int, scriptCode []byte, value uint64, ht uint32) []byte {
	zero := make([]byte, 32)
	base := ht & 0x1f
	acp := ht&0x80 != 0
	hashPrevouts, hashSequence, hashOutputs := zero, zero, zero
	if !acp {
		var b []byte
		for _, in := range t.ins {
			b = append(b, refRev(in.txid)...)
			b = append(b, refLE32(in.vout)...)
		}
		hashPrevouts = sha256dRef(b)
	}
	if !acp && base != 2 && base != 3 {
		var b []byte
		for _, in := range t.ins {
			b = append(b, refLE32(in.seq)...)
		}
		hashSequence = sha256dRef(b)
	}
	if base != 2 && base != 3 {
		var b []byte
		for _, o := range t.outs {
			b = append(b, refLE64(o.value)...)
			b = append(b, refCompact(len(o.script))...)
			b = append(b, o.script...)
		}
		hashOutputs = sha256dRef(b)
	} else if base == 3 && idx < len(t.outs) {
		o := t.outs[idx]
		var b []byte
		b = append(b, refLE64(o.value)...)
		b = append(b, refCompact(len(o.script))...)
		b = append(b, o.script...)
		hashOutputs = sha256dRef(b)
	}
	var p []byte
	p = append(p, refLE32(t.version)...)
	p = append(p, hashPrevouts...)
	p = append(p, hashSequence...)
	p = append(p, refRev(t.ins[idx].txid)...)
	p = append(p, refLE32(t.ins[idx].vout)...)
	p = append(p, refCompact(len(scriptCode))...)
	p = append(p, scriptCode...)
	p = append(p, refLE64(value)...)
	p = append(p, refLE32(t.ins[idx].seq)...)
	p = append(p, hashOutputs...)
	p = append(p, refLE32(t.locktime)...)
	p = append(p, refLE32(ht)...)
	return p
}

// refPreimageLegacy: original SignatureHash serialisation. single=true result means "hash is the constant 1".
func refPreimageLegacy(t *refTx, idx int, scriptCode []byte, ht uint32) (pre []byte, one bool) {
	base := ht & 0x1f
	acp := ht&0x80 != 0
	if base == 3 && idx >= len(t.outs) {
		return nil, true
	}
	var p []byte
	p = append(p, refLE32(t.version)...)
	writeIn := func(i int) {
		in := t.ins[i]
		p = append(p, refRev(in.txid)...)
		p = append(p, refLE32(in.vout)...)
		if i == idx {
			p = append(p, refCompact(len(scriptCode))...)
			p = append(p, scriptCode...)
			p = append(p, refLE32(in.seq)...)
		} else {
			p = append(p, 0)
			if base == 2 || base == 3 {
				p = append(p, 0, 0, 0, 0)
			} else {
				p = append(p, refLE32(in.seq)...)
			}
		}
	}
	if acp {
		p = append(p, 1)
		writeIn(idx)
	} else {
		p = append(p, refCompact(len(t.ins))...)
		for i := range t.ins {
			writeIn(i)
		}
	}
	switch base {
	case 2:
		p = append(p, 0)
	case 3:
		p = append(p, refCompact(idx+1)...)
		for i := 0; i < idx; i++ {
			p = append(p, 0xff, 0xff, 0xff, 0xff, 0xff, 0xff, 0xff, 0xff, 0)
		}
		o := t.outs[idx]
		p = append(p, refLE64(o.value)...)
		p = append(p, refCompact(len(o.script))...)
		p = append(p, o.script...)
	default:
		p = append(p, refCompact(len(t.outs))...)
		for _, o := range t.outs {
			p = append(p, refLE64(o.value)...)
			p = append(p, refCompact(len(o.script))...)
			p = append(p, o.script...)
		}
	}
	p = append(p, refLE32(t.locktime)...)
	p = append(p, refLE32(ht)...)
	return p, false
}

// vsigtx: transaction for the signature-hash harnesses; every input has previous value/script recorded.
func vsigtx(maxIn, maxOut, maxS int) *Tx {
	tx := vtx(1, maxIn, 0, maxOut, maxS)
	for _, in := range tx.Inputs {
		in.PreviousTxSatoshis = vnondetU64("prevsats")
		in.PreviousTxScript = vscript("prevscript", 0, maxS)
	}
	return tx
}

// vlongScriptCode: optionally replaces the signed input's previous script by one whose length sits on
// the one-byte / three-byte length-prefix boundary (symbolic first and last byte, concrete filler).
func vlongScriptCode(tx *Tx, idx uint32) {
	if idx >= uint32(len(tx.Inputs)) || !vnondetBool("long-scriptcode") {
		return
	}
	n := []int{252, 253, 255, 256}[vnondetLen("scriptcode-len", 0, 1+2*vparam("SCBIG", 0))]
	b := make([]byte, n)
	for i := range b {
		b[i] = 0x51
	}
	b[0], b[n-1] = vnondetU8("scriptcode-first"), vnondetU8("scriptcode-last")
	s := bscriptScript(b)
	tx.Inputs[idx].PreviousTxScript = &s
}

// C02: FORKID preimage and hash equal the specification for all 128 FORKID hash types.
func VH_C02_Preimage() {
	tx := vsigtx(vparam("IN", 2), vparam("OUT", 2), vparam("S", 1))
	idx := vnondetU32("idx")
	vassume(idx <= uint32(len(tx.Inputs)))
	ht := sighash.Flag(vnondetU8("ht"))
	vassume(ht&0x40 != 0)
	vlongScriptCode(tx, idx)
	if idx < uint32(len(tx.Inputs)) {
		switch vnondetLen("missing", 0, 3) {
		case 1:
			tx.Inputs[idx].PreviousTxScript = nil
		case 2:
			tx.Inputs[idx].previousTxID = nil
		case 3:
			tx.Inputs[idx].previousTxID = []byte{} // what JSON decoding of "txid":"" leaves behind
		}
	}
	before := tx.ExtendedBytes()
	got, err := tx.CalcInputPreimage(idx, ht)
	h, herr := tx.CalcInputSignatureHash(idx, ht)
	vassert(vbytesEq(tx.ExtendedBytes(), before), "C02: transaction unchanged")
	vassert((err == nil) == (herr == nil), "C02: preimage and hash agree on error")
	if idx >= uint32(len(tx.Inputs)) {
		vassert(err != nil, "C02: missing input is an error")
		vreach("c02-missing-input")
		return
	}
	in := tx.Inputs[idx]
	if in.PreviousTxScript == nil || len(in.previousTxID) == 0 {
		vassert(err != nil, "C02: missing previous txid/script is an error")
		vreach("c02-missing-prev")
		return
	}
	vassert(err == nil, "C02: no error on complete input")
	if err != nil {
		return
	}
	want := refPreimage143(refFromTx(tx), int(idx), *in.PreviousTxScript, in.PreviousTxSatoshis, uint32(ht))
	vassert(vbytesEq(got, want), "C02: preimage equals the replay-protected digest preimage")
	vassert(vbytesEq(h, sha256dRef(want)), "C02: signature hash is double SHA-256 of the preimage")
	vreach("c02-ok")
}

// C03: legacy preimage and hash for all 128 non-FORKID hash types.
func VH_C03_Legacy() {
	tx := vsigtx(vparam("IN", 2), vparam("OUT", 2), vparam("S", 1))
	idx := vnondetU32("idx")
	vassume(idx < uint32(len(tx.Inputs)))
	ht := sighash.Flag(vnondetU8("ht"))
	vassume(ht&0x40 == 0)
	vlongScriptCode(tx, idx)
	if vnondetBool("unsigned") {
		for _, in := range tx.Inputs {
			in.UnlockingScript = nil
		}
	}
	before := tx.ExtendedBytes()
	got, err := tx.CalcInputPreimageLegacy(idx, ht)
	h, herr := tx.CalcInputSignatureHash(idx, ht)
	vassert(vbytesEq(tx.ExtendedBytes(), before), "C03: transaction unchanged")
	vassert(vand(err == nil, herr == nil), "C03: no error for an in-range input")
	if err != nil || herr != nil {
		return
	}
	in := tx.Inputs[idx]
	want, one := refPreimageLegacy(refFromTx(tx), int(idx), *in.PreviousTxScript, uint32(ht))
	if one {
		c := make([]byte, 32)
		c[0] = 1
		vassert(vbytesEq(h, c), "C03: SINGLE without matching output hashes to the constant 1")
		vreach("c03-single-bug")
		return
	}
	vassert(vbytesEq(got, want), "C03: preimage equals the original serialisation")
	vassert(vbytesEq(h, sha256dRef(want)), "C03: signature hash is double SHA-256 of the preimage")
	vreach("c03-ok")
}

// vhistoryPrefix: histories of calls on one transaction object. A first signature hash and
// preimage are computed (any input; legacy ALL / legacy SINGLE / ALL|FORKID /
// SINGLE|ANYONECANPAY|FORKID), the caller then scribbles over the returned byte strings (they
// are the caller's) and edits the transaction in place without changing the input / output
// counts. The second computation (in the callers below) must describe the edited transaction
// exactly as a fresh computation would.
var vheldP, vheldH, vheldPGhost, vheldHGhost []byte

// vheldUnchanged: the byte strings an earlier call returned still hold what the caller left in them.
func vheldUnchanged() bool {
	return vand(vbytesEq(vheldP, vheldPGhost), vbytesEq(vheldH, vheldHGhost))
}

func vhistoryPrefix() *Tx {
	tx := vsigtx(vparam("IN", 2), vparam("OUT", 2), vparam("S", 0))
	idx1 := vnondetU32("idx1")
	vassume(idx1 < uint32(len(tx.Inputs)))
	ht1 := []sighash.Flag{0x01, 0x03, 0x41, 0xc3}[vnondetLen("ht1", 0, 3)]
	h1, e1 := tx.CalcInputSignatureHash(idx1, ht1)
	var p1 []byte
	var e2 error
	if ht1&0x40 != 0 {
		p1, e2 = tx.CalcInputPreimage(idx1, ht1)
	} else {
		p1, e2 = tx.CalcInputPreimageLegacy(idx1, ht1)
	}
	vassert(vand(e1 == nil, e2 == nil), "history: first computation succeeds")
	// the results belong to the caller
	for i := range h1 {
		h1[i] = vnondetU8("scribble-h")
	}
	if len(p1) > 0 {
		p1[0] = vnondetU8("scribble-p0")
		p1[len(p1)-1] = vnondetU8("scribble-pn")
	}
	vheldP, vheldH = p1, h1
	vheldPGhost, vheldHGhost = append([]byte{}, p1...), append([]byte{}, h1...)
	// in-place edit
	switch vnondetLen("edit", 0, 8) {
	case 0:
	case 1:
		tx.Version = vnondetU32("new-version")
	case 2:
		tx.LockTime = vnondetU32("new-locktime")
	case 3:
		tx.Inputs[vnondetLen("edit-in", 0, len(tx.Inputs)-1)].SequenceNumber = vnondetU32("new-seq")
	case 4:
		tx.Inputs[vnondetLen("edit-in", 0, len(tx.Inputs)-1)].PreviousTxOutIndex = vnondetU32("new-vout")
	case 5:
		tx.Inputs[vnondetLen("edit-in", 0, len(tx.Inputs)-1)].previousTxID = vnondetBytes("new-txid", 32, 32)
	case 6:
		if len(tx.Outputs) > 0 {
			tx.Outputs[vnondetLen("edit-out", 0, len(tx.Outputs)-1)].Satoshis = vnondetU64("new-sats")
		}
	case 7:
		if len(tx.Outputs) > 0 {
			tx.Outputs[vnondetLen("edit-out", 0, len(tx.Outputs)-1)].LockingScript = vscript("new-lock", 1, 1)
		}
	case 8:
		in := tx.Inputs[vnondetLen("edit-in", 0, len(tx.Inputs)-1)]
		in.PreviousTxSatoshis = vnondetU64("new-prevsats")
		in.PreviousTxScript = vscript("new-prevscript", 1, 1)
	}
	return tx
}

// vhistoryType: second-call hash type: the six standard ones of the family (quick) or all 128 (ALLHT=1).
func vhistoryType(forkid bool) sighash.Flag {
	var ht sighash.Flag
	if vparam("ALLHT", 0) == 1 {
		ht = sighash.Flag(vnondetU8("ht2"))
	} else {
		ht = []sighash.Flag{0x01, 0x02, 0x03, 0x81, 0x82, 0x83}[vnondetLen("ht2", 0, 5)]
		if forkid {
			ht |= 0x40
		}
	}
	vassume((ht&0x40 != 0) == forkid)
	return ht
}

// C02 over histories: call, scribble, edit in place, call again (FORKID second call).
func VH_C02_History() {
	tx := vhistoryPrefix()
	idx := vnondetU32("idx2")
	vassume(idx < uint32(len(tx.Inputs)))
	ht := vhistoryType(true)
	in := tx.Inputs[idx]
	before := tx.ExtendedBytes()
	got, err := tx.CalcInputPreimage(idx, ht)
	h, herr := tx.CalcInputSignatureHash(idx, ht)
	vassert(vand(err == nil, herr == nil), "C02: history: second computation succeeds")
	if err != nil || herr != nil {
		return
	}
	want := refPreimage143(refFromTx(tx), int(idx), *in.PreviousTxScript, in.PreviousTxSatoshis, uint32(ht))
	vassert(vbytesEq(got, want), "C02: history: preimage after an in-place edit equals the digest preimage of the edited transaction")
	vassert(vbytesEq(h, sha256dRef(want)), "C02: history: signature hash after an in-place edit is double SHA-256 of that preimage")
	vassert(vbytesEq(tx.ExtendedBytes(), before), "C02: history: transaction unchanged by the second computation")
	vassert(vheldUnchanged(), "C02: history: results handed out earlier are not rewritten by a later computation")
	vreach("c02-history-ok")
}

// C03 over histories (legacy second call; the first call may be of either family).
func VH_C03_History() {
	tx := vhistoryPrefix()
	idx := vnondetU32("idx2")
	vassume(idx < uint32(len(tx.Inputs)))
	ht := vhistoryType(false)
	in := tx.Inputs[idx]
	before := tx.ExtendedBytes()
	got, err := tx.CalcInputPreimageLegacy(idx, ht)
	h, herr := tx.CalcInputSignatureHash(idx, ht)
	vassert(vand(err == nil, herr == nil), "C03: history: second computation succeeds")
	if err != nil || herr != nil {
		return
	}
	vassert(vbytesEq(tx.ExtendedBytes(), before), "C03: history: transaction unchanged by the second computation")
	vassert(vheldUnchanged(), "C03: history: results handed out earlier are not rewritten by a later computation")
	want, one := refPreimageLegacy(refFromTx(tx), int(idx), *in.PreviousTxScript, uint32(ht))
	if one {
		c := make([]byte, 32)
		c[0] = 1
		vassert(vbytesEq(h, c), "C03: history: SINGLE without matching output still hashes to the constant 1 after the caller wrote into an earlier result")
		vreach("c03-history-single-bug")
		return
	}
	vassert(vbytesEq(got, want), "C03: history: preimage after an in-place edit equals the original serialisation of the edited transaction")
	vassert(vbytesEq(h, sha256dRef(want)), "C03: history: signature hash after an in-place edit is double SHA-256 of that preimage")
	vreach("c03-history-ok")
}
