package bt

import "bytes"

// C01-H3: VarInt codec over the full 64-bit range.
func VH_C01_VarInt() {
	v := VarInt(vnondetU64("v"))
	b := v.Bytes()
	vassert(len(b) == v.Length(), "len(Bytes)==Length")
	var w VarInt
	n, err := w.ReadFrom(bytes.NewReader(b))
	vassert(err == nil, "ReadFrom ok")
	vassert(int(n) == len(b), "ReadFrom consumed all")
	vassert(w == v, "ReadFrom(Bytes(v))==v")
	w2, n2 := NewVarIntFromBytes(b)
	vassert(vand(w2 == v, n2 == len(b)), "NewVarIntFromBytes agrees")
	inc := v.UpperLimitInc()
	if v != 0xffffffffffffffff {
		grow := (v + 1).Length() - v.Length()
		vassert(inc == grow, "UpperLimitInc equals growth")
		vreach("not-max")
	} else {
		vassert(inc == -1, "UpperLimitInc at max")
		vreach("max")
	}
}
