#!/bin/bash
# wave 7 (suffix g): evaluate the seeders' deliverables in /tmp/seedg/<id>-out; results land in /verif/seeded/<id>-g
H="$(cd "$(dirname "$0")/.." && pwd)"; cd "$H"
export GOFLAGS=-mod=mod GOPROXY=off GOSUMDB=off GOTOOLCHAIN=local
[ -x bin/gosym ] || (cd engine && go build -o ../bin/gosym .)
run() { echo "== $*"; python3 tools/seed_eval.py "$@" --scratch 2>&1 | grep -v '"needs_to_manifest"' | tail -22; }
for p in ${@:-C01 C02 C03 C04 C05 C06 C07 C08 C09 C10 C11 C12 C13 C14 C15 C16 C17 C18 C19 C20}; do
  [ -f /tmp/seedg/$p-out/patch.diff ] && run $p /tmp/seedg/$p-out $p-g
done
