package bt

import (
	"fmt"
	"context"
	"errors"

	"github.com/libsv/go-bt/v2/bscript"
)

const vMaxSats = 2100000000000000 // 21e14

func vp2pkhScript(tag string) *bscript.Script {
	s := bscript.Script{0x76, 0xa9, 0x14}
	s = append(s, vnondetBytes(tag, 20, 20)...)
	s = append(s, 0x88, 0xac)
	return &s
}

// vquote: fee quote with independent symbolic standard / data rates (satoshis >= 0, bytes >= 1).
func vquote() *FeeQuote { return vquoteD(true) }

func vquoteD(withData bool) *FeeQuote {
	mk := func(t string) *Fee {
		var den int
		if t == "data" && !withData {
			den = 1 // no data outputs: the data rate is irrelevant
		} else if vparam("DEN", 0) == 1 {
			den = int(vnondetRange(t+"-bytes", 1, 1000)) // symbolic denominator: non-linear integer arithmetic
		} else {
			den = []int{1, 3, 1000}[vnondetLen(t+"-bytes", 0, 2)] // denominators 1, 3, 1000 (rates above, around and below 1 sat/byte)
		}
		return &Fee{FeeType: FeeType(t), MiningFee: FeeUnit{Satoshis: int(vnondetRange(t+"-sat", 0, 1000000)), Bytes: den}}
	}
	return &FeeQuote{fees: map[FeeType]*Fee{FeeTypeStandard: mk("standard"), FeeTypeData: mk("data")}}
}

// vfundedTx: nIn P2PKH-funded inputs, then outputs: P2PKH or data carrier.
func vfundedTx(nIn, nOut int, dataEvery int) *Tx {
	tx := &Tx{Version: 1}
	txid := vnondetBytes("txid", 32, 32)
	for i := 0; i < nIn; i++ {
		tx.Inputs = append(tx.Inputs, &Input{previousTxID: txid, PreviousTxOutIndex: uint32(i), SequenceNumber: 0xffffffff,
			PreviousTxSatoshis: vnondetRange("insats", 0, vMaxSats), PreviousTxScript: vp2pkhScript("inpkh")})
	}
	pkh := vp2pkhScript("outpkh")
	for i := 0; i < nOut; i++ {
		if dataEvery > 0 && i%dataEvery == dataEvery-1 {
			s := bscript.Script{0x00, 0x6a}
			s = append(s, vnondetBytes("opreturn", 0, 3)...)
			tx.Outputs = append(tx.Outputs, &Output{Satoshis: 0, LockingScript: &s})
		} else {
			tx.Outputs = append(tx.Outputs, &Output{Satoshis: vnondetRange("outsats", 0, vMaxSats), LockingScript: pkh})
		}
	}
	return tx
}

func refVarintLen(n int) int {
	switch {
	case n < 253:
		return 1
	case n < 0x10000:
		return 3
	}
	return 5
}

// refEstimatedSizes: size of the transaction once every (unsigned) input carries a 107-byte
// P2PKH unlocking script; data bytes are the script bytes of data-carrier outputs.
func refEstimatedSizes(tx *Tx) (std, data uint64) {
	total := 4 + refVarintLen(len(tx.Inputs)) + refVarintLen(len(tx.Outputs)) + 4
	for _, in := range tx.Inputs {
		ul := 107
		if in.UnlockingScript != nil && len(*in.UnlockingScript) > 0 {
			ul = len(*in.UnlockingScript)
		}
		total += 32 + 4 + refVarintLen(ul) + ul + 4
	}
	d := 0
	for _, o := range tx.Outputs {
		l := len(*o.LockingScript)
		total += 8 + refVarintLen(l) + l
		if refIsDataScript(*o.LockingScript) {
			d += l
		}
	}
	return uint64(total - d), uint64(d)
}

func refIsDataScript(b []byte) bool {
	return (len(b) > 0 && b[0] == 0x6a) || (len(b) > 1 && b[0] == 0x00 && b[1] == 0x6a)
}

func refFee(std, data uint64, fq *FeeQuote) uint64 {
	s, d := fq.fees[FeeTypeStandard].MiningFee, fq.fees[FeeTypeData].MiningFee
	return std*uint64(s.Satoshis)/uint64(s.Bytes) + data*uint64(d.Satoshis)/uint64(d.Bytes)
}

func vsum(tx *Tx) (in, out uint64) {
	for _, i := range tx.Inputs {
		in += i.PreviousTxSatoshis
	}
	for _, o := range tx.Outputs {
		out += o.Satoshis
	}
	return
}

func voutCount(tag string) int {
	k := vnondetLen(tag, 0, 2+vparam("BOUNDARY", 1))
	return []int{0, 1, 2, 252}[k]
}

// C10: Change / ChangeToExistingOutput.
func VH_C10_Change() {
	nIn := vnondetLen("nin", 1, vparam("IN", 2))
	nOut := voutCount("nout")
	dataEvery := 0
	if nOut > 0 && nOut <= 2 && vnondetBool("withdata") {
		dataEvery = 2
		if nOut == 2 && vnondetBool("alldata") {
			dataEvery = 1 // two data outputs: their bytes add up
		}
	}
	tx := vfundedTx(nIn, nOut, dataEvery)
	fq := vquoteD(dataEvery > 0)
	existing := nOut > 0 && vnondetBool("existing")
	// change destination: P2PKH, or any non-data locking script of another length
	var cs *bscript.Script
	if !existing {
		if vnondetBool("p2pkh-change") {
			cs = vp2pkhScript("changepkh")
		} else {
			cl := []int{1, 2, 24, 26, 252, 253}[vnondetLen("changelen", 0, 3+2*vparam("CSBIG", 0))]
			b := vnondetBytes("changescript", cl, cl)
			vassume(b[0] != 0x6a && !(len(b) > 1 && b[0] == 0 && b[1] == 0x6a))
			s := bscript.Script(b)
			cs = &s
		}
	}
	in0, out0 := vsum(tx)
	var ghost []Output
	for _, o := range tx.Outputs {
		ghost = append(ghost, *o)
	}
	idx := uint(0)
	var err error
	if existing {
		idx = uint(vnondetLen("idx", 0, nOut-1))
		err = tx.ChangeToExistingOutput(idx, fq)
	} else {
		err = tx.Change(cs, fq)
	}
	if err != nil {
		vreach("change-error")
		return
	}
	// pre-existing outputs untouched (except the designated one)
	ok := len(tx.Outputs) >= nOut
	if ok {
		for i := 0; i < nOut; i++ {
			same := vand(tx.Outputs[i].LockingScript == ghost[i].LockingScript, tx.Outputs[i].Satoshis == ghost[i].Satoshis)
			if existing && uint(i) == idx {
				same = tx.Outputs[i].LockingScript == ghost[i].LockingScript
			}
			ok = vand(ok, same)
		}
	}
	vassert(ok, "C10: pre-existing outputs untouched")
	in1, out1 := vsum(tx)
	vassert(in1 == in0, "C10: inputs untouched")
	vassert(out1 <= in1, "C10: outputs never exceed inputs")
	added := len(tx.Outputs) == nOut+1 || (existing && out1 != out0)
	std, data := refEstimatedSizes(tx)
	if added {
		feeLeft := in1 - out1
		f := refFee(std, data, fq)
		sm := fq.fees[FeeTypeStandard].MiningFee
		slack := 9*uint64(sm.Satoshis)/uint64(sm.Bytes) + 9
		vassert(feeLeft >= f, "C10: fee left covers the quoted fee for the final size")
		vassert(feeLeft <= f+slack, "C10: fee left exceeds the quoted fee by at most fee(9 bytes)+9")
		vreach("change-added")
	} else {
		vassert(len(tx.Outputs) == nOut && out1 == out0, "C10: no change means the transaction is unchanged")
		// what remains after the fee a change output would require is at or below dust
		stdW := std
		if !existing {
			l := len(*cs)
			stdW += uint64(8 + refVarintLen(l) + l + refVarintLen(nOut+1) - refVarintLen(nOut))
		}
		fw := refFee(stdW, data, fq)
		vassert(in1-out1 <= fw+DustLimit, "C10: change is only dropped when the remainder is at or below dust")
		vreach("change-none")
	}
}

var _ = context.Background
var _ = errors.Is

// C11: size / fee accounting.
func VH_C11_Accounting() {
	nIn := vnondetLen("nin", 0, vparam("IN", 2))
	nOut := vnondetLen("nout", 0, vparam("OUT", 3))
	tx := &Tx{Version: vnondetU32("version"), LockTime: vnondetU32("locktime")}
	txid := vnondetBytes("txid", 32, 32)
	for i := 0; i < nIn; i++ {
		in := &Input{previousTxID: txid, PreviousTxOutIndex: uint32(i), SequenceNumber: 0xffffffff, PreviousTxSatoshis: vnondetRange("insats", 0, vMaxSats)}
		if vnondetBool("signed") {
			in.UnlockingScript = vscript("unlock", 1, 2)
		}
		tx.Inputs = append(tx.Inputs, in)
	}
	for i := 0; i < nOut; i++ {
		// arbitrary short scripts: whether they are data carriers is decided by the solver
		tx.Outputs = append(tx.Outputs, &Output{Satoshis: vnondetRange("outsats", 0, vMaxSats), LockingScript: vscript("lock", 0, vparam("S", 3))})
	}
	fq := vquote()
	sz := tx.SizeWithTypes()
	total := len(tx.Bytes())
	data := 0
	for _, o := range tx.Outputs {
		if refIsDataScript(*o.LockingScript) {
			data += len(*o.LockingScript)
		}
	}
	vassert(sz.TotalBytes == uint64(total) && tx.Size() == total, "C11: total = serialised length")
	vassert(sz.TotalDataBytes == uint64(data), "C11: data bytes = script bytes of data-carrier outputs")
	vassert(sz.TotalStdBytes+sz.TotalDataBytes == sz.TotalBytes, "C11: total = standard + data")
	fees, err := tx.feesPaid(sz, fq)
	vassert(err == nil, "C11: fee computation succeeds")
	if err != nil {
		return
	}
	want := refFee(uint64(total-data), uint64(data), fq)
	vassert(fees.TotalFeePaid == want && fees.StdFeePaid+fees.DataFeePaid == fees.TotalFeePaid, "C11: fee = floor(std*rate)+floor(data*rate)")
	enough, err := tx.IsFeePaidEnough(fq)
	vassert(err == nil, "C11: IsFeePaidEnough succeeds")
	in, out := vsum(tx)
	vassert(enough == (in >= out && in-out >= want), "C11: fee-sufficiency predicate is exact")
	vreach("accounting-done")
}

// C11 on the count boundaries: 1 / 252 / 253 inputs against 1 / 252 / 253 outputs (the two counts
// take their varint widths independently); the repeated inputs / outputs are one object each.
func VH_C11_CountBoundary() {
	counts := []int{1, 252, 253}
	nIn := counts[vnondetLen("nin", 0, 2)]
	nOut := counts[vnondetLen("nout", 0, 2)]
	tx := &Tx{Version: vnondetU32("version"), LockTime: vnondetU32("locktime")}
	in := &Input{previousTxID: vnondetBytes("txid", 32, 32), PreviousTxOutIndex: vnondetU32("vout"), SequenceNumber: 0xffffffff,
		PreviousTxSatoshis: vnondetRange("insats", 0, vMaxSats/512), PreviousTxScript: vp2pkhScript("inpkh")}
	for i := 0; i < nIn; i++ {
		tx.Inputs = append(tx.Inputs, in)
	}
	out := &Output{Satoshis: vnondetRange("outsats", 0, vMaxSats/512), LockingScript: vscript("lock", 1, 1)}
	for i := 0; i < nOut; i++ {
		tx.Outputs = append(tx.Outputs, out)
	}
	fq := vquote()
	sz := tx.SizeWithTypes()
	total := len(tx.Bytes())
	data := 0
	if refIsDataScript(*out.LockingScript) {
		data = nOut * len(*out.LockingScript)
	}
	vassert(sz.TotalBytes == uint64(total) && tx.Size() == total, "C11: count boundary: total = serialised length")
	vassert(sz.TotalDataBytes == uint64(data) && sz.TotalStdBytes+sz.TotalDataBytes == sz.TotalBytes, "C11: count boundary: total = standard + data")
	want := refFee(uint64(total-data), uint64(data), fq)
	enough, err := tx.IsFeePaidEnough(fq)
	vassert(err == nil, "C11: count boundary: IsFeePaidEnough succeeds")
	si, so := uint64(nIn)*in.PreviousTxSatoshis, uint64(nOut)*out.Satoshis
	vassert(enough == (si >= so && si-so >= want), "C11: count boundary: fee-sufficiency predicate is exact")
	// the estimate for the unsigned transaction covers the size with 107-byte unlocking scripts
	est, err := tx.EstimateSizeWithTypes()
	vassert(err == nil, "C11: count boundary: estimate succeeds")
	if err == nil {
		estd, edata := refEstimatedSizes(tx)
		vassert(est.TotalStdBytes == estd && est.TotalDataBytes == edata, "C11: count boundary: estimated size is the size with every input signed")
	}
	vreach("countboundary-done")
}

// C11: estimation on P2PKH-funded transactions: upper bound on the signed size, and errors
// instead of guesses for missing / unsupported spent scripts.
func VH_C11_Estimate() {
	nIn := vnondetLen("nin", 1, vparam("IN", 2))
	nOut := vnondetLen("nout", 0, 2)
	tx := vfundedTx(nIn, nOut, 2)
	fq := vquote()
	bad := vnondetLen("bad", 0, 3)
	if bad == 0 && vnondetBool("empty-unlock") {
		// what decoding or cloning an unsigned transaction leaves behind: empty, non-nil unlocking scripts
		for _, in := range tx.Inputs {
			in.UnlockingScript = &bscript.Script{}
		}
	}
	k := vnondetLen("which", 0, nIn-1)
	switch bad {
	case 1:
		tx.Inputs[k].PreviousTxScript = nil
	case 2:
		s := bscript.Script(vnondetBytes("odd", 0, 3))
		tx.Inputs[k].PreviousTxScript = &s
	case 3: // an inscription envelope behind something that is not a P2PKH prefix
		s := bscript.Script([][]byte{{}, {0x51}, {0x21, 2, 0, 0, 0, 0, 0, 0, 0, 0, 0, 0, 0, 0, 0, 0, 0, 0, 0, 0, 0, 0, 0, 0, 0, 0, 0, 0, 0, 0, 0, 0, 0, 1, 0xac}}[vnondetLen("odd-prefix", 0, 2)])
		s = append(s, 0x00, 0x63, 0x03, 0x6f, 0x72, 0x64, 0x51, 0x01, 0x41, 0x00, 0x01, 0x42, 0x68)
		tx.Inputs[k].PreviousTxScript = &s
		bad = 2
	}
	est, err := tx.EstimateSize()
	_, err2 := tx.EstimateIsFeePaidEnough(fq)
	_, err3 := tx.EstimateFeesPaid(fq)
	switch bad {
	case 1:
		vassert(errors.Is(err, ErrEmptyPreviousTxScript) && err2 != nil && err3 != nil, "C11: missing spent script is an error")
		vreach("estimate-missing")
		return
	case 2:
		vassert(errors.Is(err, ErrUnsupportedScript) && err2 != nil && err3 != nil, "C11: unsupported spent script is an error")
		vreach("estimate-unsupported")
		return
	}
	vassert(err == nil && err2 == nil && err3 == nil, "C11: estimation succeeds for P2PKH-funded transactions")
	if err != nil {
		return
	}
	// sign (a subset of) the inputs with unlocking scripts of the size the library produces:
	// <sig: DER 8..71 bytes + hash type> <33-byte key>  => at most 107 bytes
	for _, in := range tx.Inputs {
		if vnondetBool("sign") {
			in.UnlockingScript = vscript("unlock", 107-vparam("SIGVAR", 3), 107)
		}
	}
	est2, err := tx.EstimateSize()
	vassert(err == nil, "C11: estimation succeeds on a partially signed transaction")
	vassert(est >= tx.Size() || est2 >= tx.Size(), "C11: estimate never below the real signed size")
	vassert(est2 >= tx.Size(), "C11: estimate of the partially signed tx never below its size")
	std, data := refEstimatedSizes(tx)
	vassert(uint64(est2) == std+data, "C11: estimate equals the specified final size")
	vreach("estimate-ok")
}

// C12: Fund.
func VH_C12_Fund() {
	nIn := vnondetLen("nin0", 0, 1)
	nOut := vnondetLen("nout", 1, 2)
	tx := vfundedTx(nIn, nOut, 2*vnondetLen("withdata", 0, 1))
	fq := vquoteD(false)
	var ghostOut []Output
	for _, o := range tx.Outputs {
		ghostOut = append(ghostOut, *o)
	}
	oldIn := append([]*Input{}, tx.Inputs...)
	maxCalls := vparam("CALLS", 3)
	calls := 0
	var given []*UTXO
	deficitOK := true
	exhausted := false
	otherErr := errors.New("supplier failure")
	failed := false
	next := func(ctx context.Context, deficit uint64) ([]*UTXO, error) {
		// the supplier must be called only while a deficit remains, with the current deficit
		in, out := vsum(tx)
		std, data := refEstimatedSizes(tx)
		need := out + refFee(std, data, fq)
		deficitOK = vand(deficitOK, vand(deficit != 0, vand(in <= need, deficit == need-in)))
		calls++
		if calls > maxCalls {
			exhausted = true
			return nil, ErrNoUTXO
		}
		switch vnondetLen("batch", 0, 3) {
		case 0:
			exhausted = true
			if vnondetBool("wrapped-exhaustion") {
				return nil, fmt.Errorf("wallet empty: %w", ErrNoUTXO) // errors.Is must still see the sentinel
			}
			return nil, ErrNoUTXO
		case 1:
			failed = true
			return nil, otherErr
		case 2:
			return []*UTXO{}, nil
		}
		n := vnondetLen("batchsize", 1, 2)
		var us []*UTXO
		for i := 0; i < n; i++ {
			u := &UTXO{TxID: vnondetBytes("utxo-txid", 32, 32), Vout: vnondetU32("utxo-vout"), Satoshis: vnondetRange("utxo-sats", 0, vMaxSats), LockingScript: vp2pkhScript("utxo-pkh"), SequenceNumber: vnondetU32("utxo-seq")}
			us = append(us, u)
			given = append(given, u)
		}
		return us, nil
	}
	vunwindCut(maxCalls + 2)
	err := tx.Fund(context.Background(), fq, next)
	vassert(deficitOK, "C12: supplier called only while a deficit remains, with the current deficit")
	// outputs untouched in every case
	ok := len(tx.Outputs) == len(ghostOut)
	if ok {
		for i := range ghostOut {
			ok = vand(ok, vand(tx.Outputs[i].Satoshis == ghostOut[i].Satoshis, tx.Outputs[i].LockingScript == ghostOut[i].LockingScript))
		}
	}
	vassert(ok, "C12: outputs untouched")
	// inputs = previous inputs followed by every UTXO returned, in order, faithfully
	okIn := len(tx.Inputs) == len(oldIn)+len(given)
	if okIn {
		for i := range oldIn {
			okIn = vand(okIn, tx.Inputs[i] == oldIn[i])
		}
		for j, u := range given {
			in := tx.Inputs[len(oldIn)+j]
			okIn = vand(okIn, vand(vbytesEq(in.previousTxID, u.TxID), vand(in.PreviousTxOutIndex == u.Vout, vand(in.PreviousTxSatoshis == u.Satoshis, vand(in.PreviousTxScript == u.LockingScript, in.SequenceNumber == 0xffffffff)))))
		}
	}
	vassert(okIn, "C12: inputs are the previous inputs followed by every supplied UTXO, in order")
	in, out := vsum(tx)
	std, data := refEstimatedSizes(tx)
	need := out + refFee(std, data, fq)
	switch {
	case err == nil:
		vassert(in >= need, "C12: success means inputs cover outputs plus the estimated fee")
		vassert(!failed, "C12: a supplier error is not swallowed")
		vreach("fund-ok")
	case errors.Is(err, ErrInsufficientFunds):
		vassert(exhausted && in < need+1, "C12: insufficient funds only after exhaustion with a remaining deficit")
		vreach("fund-insufficient")
	default:
		vassert(failed, "C12: other errors come from the supplier")
		vreach("fund-error")
	}
}
