package interpreter

import (
	"github.com/libsv/go-bt/v2/bscript"
	"github.com/libsv/go-bt/v2/bscript/interpreter/scriptflag"
)

func vcopy(b []byte) []byte { return append([]byte{}, b...) }

func vexec(th *thread, op byte) error {
	return th.executeOpcode(ParsedOpcode{op: opcodeArray[op]})
}

// C08-A1: an item produced by duplication / picking / splitting / a script push shares memory
// with its source; transforming one copy with any opcode must not change the other copy
// (on either stack) nor the script bytes.
func VH_C08_Alias() {
	vunwindCut(vparam("U", 6))
	k := vparam("K", 2)
	// the transforming opcode, with fresh further operands as needed
	op := vnondetU8("op")
	vassume(int(op) >= vparam("OPLO", 0) && int(op) <= vparam("OPHI", 255))
	vassume(op > bscript.Op16 && op != bscript.OpCHECKSIG && op != bscript.OpCHECKSIGVERIFY && op != bscript.OpCHECKMULTISIG && op != bscript.OpCHECKMULTISIGVERIFY)
	// ROLL removes a deeper item by design; CSV needs a transaction context (rejected by the parser without one)
	vassume(op != bscript.OpROLL && op != bscript.OpCHECKSEQUENCEVERIFY)
	if vparam("NUMERIC", 1) == 0 {
		vassume(!(op >= bscript.Op1ADD && op <= bscript.OpWITHIN) || op == bscript.OpLSHIFT || op == bscript.OpRSHIFT || op == bscript.Op1ADD || op == bscript.OpADD || op == bscript.OpNEGATE || op == bscript.OpWITHIN)
	}
	op = byte(vconcU64(uint64(op)))
	ar := varity(op)
	vassume(ar >= 1 && ar <= 3)
	if op == bscript.OpPICK || op == bscript.OpROLL {
		ar = 1
	}
	numeric := op >= bscript.Op1ADD && op <= bscript.OpWITHIN && op != bscript.OpLSHIFT && op != bscript.OpRSHIFT
	if numeric {
		k = 1 // arithmetic opcodes only read their operands through the number decoder
	}
	switch op {
	case bscript.OpBIN2NUM, bscript.OpNUM2BIN, bscript.OpSPLIT, bscript.OpCAT, bscript.OpINVERT, bscript.OpSIZE, bscript.OpLSHIFT, bscript.OpRSHIFT:
		k = vparam("KB", k) // byte-string transformers: longer items (zero-padded / sign-carrying encodings need >= 3 bytes)
	case bscript.OpRIPEMD160, bscript.OpSHA1, bscript.OpSHA256, bscript.OpHASH160, bscript.OpHASH256:
		k = 32 // room for a digest: a hasher that appends into its operand's storage would overwrite the twin
	}
	flags := vflags()
	th := &thread{flags: flags, cfg: &beforeGenesisConfig{}, elseStack: &nopBoolStack{}, debug: &nopDebugger{}, state: &nopStateHandler{}}
	if flags&(1<<14) != 0 { // UTXOAfterGenesis
		th.elseStack = &stack{debug: &nopDebugger{}, sh: &nopStateHandler{}}
		th.afterGenesis = true
		th.cfg = &afterGenesisConfig{}
	}
	th.scriptParser = &DefaultOpcodeParser{ErrorOnCheckSig: true}
	th.dstack = newStack(th.cfg, false)
	th.astack = newStack(th.cfg, false)
	x := vnondetBytes("x", k, k)
	var script bscript.Script
	var scriptGhost []byte
	producer := vnondetLen("producer", 0, 8)
	th.scripts = []ParsedScript{{}, {}}
	th.scriptIdx = 1
	var perr error
	switch producer {
	case 0: // DUP
		th.dstack.stk = [][]byte{x}
		perr = vexec(th, bscript.OpDUP)
	case 1: // OVER: [x y] -> [x y x]; then drop to expose? keep y in between
		th.dstack.stk = [][]byte{x, vnondetBytes("y", 1, 1)}
		perr = vexec(th, bscript.OpOVER)
	case 2: // PICK 1
		th.dstack.stk = [][]byte{x, vnondetBytes("y", 1, 1), {1}}
		perr = vexec(th, bscript.OpPICK)
	case 3: // TUCK: [y x] -> [x y x]
		th.dstack.stk = [][]byte{vnondetBytes("y", 1, 1), x}
		perr = vexec(th, bscript.OpTUCK)
	case 4: // 2DUP: [x y] -> [x y x y]; drop the top y copy
		th.dstack.stk = [][]byte{x, vnondetBytes("y", 1, 1)}
		perr = vexec(th, bscript.Op2DUP)
		if perr == nil {
			perr = vexec(th, bscript.OpDROP)
		}
	case 5: // IFDUP (x must be true)
		th.dstack.stk = [][]byte{x}
		perr = vexec(th, bscript.OpIFDUP)
		vassume(len(th.dstack.stk) == 2)
	case 6: // DUP then TOALTSTACK: the copy lives on the alt stack
		th.dstack.stk = [][]byte{x}
		perr = vexec(th, bscript.OpDUP)
		if perr == nil {
			perr = vexec(th, bscript.OpTOALTSTACK)
		}
		if perr == nil {
			perr = vexec(th, bscript.OpDUP) // [x x'] on data stack, x'' on alt
		}
	case 7: // SPLIT: two adjacent pieces of one array
		x = vnondetBytes("x2", k+1, k+1)
		n := vnondetLen("splitat", 0, len(x))
		th.dstack.stk = [][]byte{x, {byte(n)}}
		if n == 0 {
			th.dstack.stk[1] = []byte{}
		}
		perr = vexec(th, bscript.OpSPLIT)
		if perr == nil && vnondetBool("swap") {
			perr = vexec(th, bscript.OpSWAP)
		}
	case 8: // pushed straight from the script: the item is a slice of the script buffer
		script = append(bscript.Script{byte(len(x))}, x...)
		script = append(script, bscript.OpNOP)
		scriptGhost = vcopy(script)
		ps, err := th.scriptParser.Parse(&script)
		vassume(err == nil)
		th.scripts[1] = ps
		_, perr = th.Step()
		if perr == nil {
			perr = vexec(th, bscript.OpDUP)
		}
	}
	vassume(perr == nil)
	// snapshot of everything below the item that will be transformed
	nd := len(th.dstack.stk)
	var ghostD, ghostA [][]byte
	for _, it := range th.dstack.stk[:nd-1] {
		ghostD = append(ghostD, vcopy(it))
	}
	for _, it := range th.astack.stk {
		ghostA = append(ghostA, vcopy(it))
	}
	// aliased item is operand number pos (0 = deepest operand) among ar operands
	pos := vnondetLen("pos", 0, ar-1)
	top := th.dstack.stk[nd-1]
	th.dstack.stk = th.dstack.stk[:nd-1]
	kk := k
	for i := 0; i < ar; i++ {
		if i == pos {
			th.dstack.stk = append(th.dstack.stk, top)
		} else {
			lo := 0
			if numeric {
				lo = kk
			}
			th.dstack.stk = append(th.dstack.stk, vnondetBytes("arg", lo, kk))
		}
	}
	_ = vexec(th, op)
	// everything below the operands is out of the opcode's reach and must be unchanged
	ok := len(th.dstack.stk) >= nd-1
	if ok {
		for i, g := range ghostD {
			ok = vand(ok, vbytesEq(th.dstack.stk[i], g))
		}
	}
	vassert(ok, "data-stack items below the operands keep their value")
	oka := len(th.astack.stk) >= len(ghostA)
	if oka && op != bscript.OpFROMALTSTACK {
		for i, g := range ghostA {
			oka = vand(oka, vbytesEq(th.astack.stk[i], g))
		}
		vassert(oka, "alt-stack items keep their value")
	}
	if scriptGhost != nil {
		vassert(vbytesEq(script, scriptGhost), "script bytes unchanged")
	}
	vreach("alias-checked")
}

var vC08Transformers = []byte{bscript.OpCAT, bscript.OpINVERT, bscript.OpAND, bscript.OpOR, bscript.OpXOR, bscript.OpNUM2BIN, bscript.OpBIN2NUM,
	bscript.OpLSHIFT, bscript.OpRSHIFT, bscript.Op1ADD, bscript.OpSPLIT}

// vtransformTop applies one transforming opcode to the top item, supplying fresh further operands.
func vtransformTop(th *thread, tag string) error {
	op := vC08Transformers[vnondetLen(tag+"-op", 0, len(vC08Transformers)-1)]
	top := th.dstack.stk[len(th.dstack.stk)-1]
	switch op {
	case bscript.OpCAT:
		th.dstack.stk = append(th.dstack.stk, vnondetBytes(tag+"-suffix", 1, 1))
	case bscript.OpAND, bscript.OpOR, bscript.OpXOR:
		th.dstack.stk = append(th.dstack.stk, vnondetBytes(tag+"-mask", len(top), len(top)))
	case bscript.OpNUM2BIN:
		th.dstack.stk = append(th.dstack.stk, []byte{byte(len(top) + 1)})
	case bscript.OpLSHIFT, bscript.OpRSHIFT:
		th.dstack.stk = append(th.dstack.stk, []byte{[]byte{1, 9}[vnondetLen(tag+"-shift", 0, 1)]})
	case bscript.OpSPLIT:
		th.dstack.stk = append(th.dstack.stk, []byte{byte(vnondetLen(tag+"-at", 1, 1))})
	}
	err := vexec(th, op)
	if err == nil && op == bscript.OpSPLIT {
		err = vexec(th, bscript.OpDROP) // keep the left piece
	}
	return err
}

// C08-A2: two transformations in a row on two copies of one item. The item comes from an
// opcode that may leave spare capacity behind its result (concatenation, arithmetic, NUM2BIN,
// a split piece, or a plain push); it is duplicated, the first copy is transformed, then the
// second: the first result must still have the value it had, and so must everything below.
// (A transformer that builds its result by appending into its operand's storage is invisible
// to a single step: only the second append overwrites what the first produced.)
func VH_C08_Twice() {
	vunwindCut(vparam("U", 6))
	var flags scriptflag.Flag
	if vnondetBool("after-genesis") {
		flags = scriptflag.UTXOAfterGenesis
	}
	th := &thread{flags: flags, cfg: &beforeGenesisConfig{}, elseStack: &nopBoolStack{}, debug: &nopDebugger{}, state: &nopStateHandler{}}
	if flags&(1<<14) != 0 { // UTXOAfterGenesis
		th.elseStack = &stack{debug: &nopDebugger{}, sh: &nopStateHandler{}}
		th.afterGenesis = true
		th.cfg = &afterGenesisConfig{}
	}
	th.scriptParser = &DefaultOpcodeParser{ErrorOnCheckSig: true}
	th.dstack = newStack(th.cfg, false)
	th.astack = newStack(th.cfg, false)
	th.scripts = []ParsedScript{{}, {}}
	th.scriptIdx = 1
	below := vnondetBytes("below", 1, 1)
	th.dstack.stk = [][]byte{below}
	var perr error
	switch vnondetLen("source", 0, 4) {
	case 0: // a concatenation result
		th.dstack.stk = append(th.dstack.stk, vnondetBytes("p", 2, 2), vnondetBytes("q", 1, 1))
		perr = vexec(th, bscript.OpCAT)
	case 1: // an arithmetic result
		th.dstack.stk = append(th.dstack.stk, vnondetBytes("a", 1, 1), vnondetBytes("b", 1, 1))
		perr = vexec(th, bscript.OpADD)
	case 2: // a NUM2BIN result
		th.dstack.stk = append(th.dstack.stk, vnondetBytes("n", 1, 1), []byte{4})
		perr = vexec(th, bscript.OpNUM2BIN)
	case 3: // the right piece of a split
		th.dstack.stk = append(th.dstack.stk, vnondetBytes("s", 4, 4), []byte{1})
		perr = vexec(th, bscript.OpSPLIT)
		if perr == nil {
			perr = vexec(th, bscript.OpNIP)
		}
	case 4: // pushed straight from the script
		script := append(bscript.Script{3}, vnondetBytes("pushed", 3, 3)...)
		script = append(script, bscript.OpNOP, bscript.OpNOP, bscript.OpNOP)
		ps, err := th.scriptParser.Parse(&script)
		vassume(err == nil)
		th.scripts[1] = ps
		_, perr = th.Step()
	}
	vassume(perr == nil && len(th.dstack.stk) == 2 && len(th.dstack.stk[1]) > 0)
	if vnondetBool("via-altstack") {
		// [below x] -> DUP TOALTSTACK ... FROMALTSTACK
		vassume(vexec(th, bscript.OpDUP) == nil && vexec(th, bscript.OpTOALTSTACK) == nil)
		vassume(vtransformTop(th, "t1") == nil)
		vassume(vexec(th, bscript.OpFROMALTSTACK) == nil)
	} else {
		vassume(vexec(th, bscript.OpDUP) == nil)
		vassume(vtransformTop(th, "t1") == nil)
		vassume(vexec(th, bscript.OpSWAP) == nil)
	}
	// [below r1 x]
	vassume(len(th.dstack.stk) == 3)
	ghostR1 := vcopy(th.dstack.stk[1])
	ghostBelow := vcopy(th.dstack.stk[0])
	vassume(vtransformTop(th, "t2") == nil)
	vassume(len(th.dstack.stk) == 3)
	vassert(vbytesEq(th.dstack.stk[1], ghostR1), "C08: the result of the first transformation keeps its value when the other copy is transformed")
	vassert(vbytesEq(th.dstack.stk[0], ghostBelow), "C08: the item below keeps its value through both transformations")
	vreach("twice-checked")
}
