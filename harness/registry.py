# Registry: property -> harness runs. PKGS maps a harness directory to (package dir relative to /repo, package name).
PKGS = {
    "bt": (".", "bt"),
    "bscript": ("./bscript", "bscript"),
    "interpreter": ("./bscript/interpreter", "interpreter"),
    "ord": ("./ord", "ord"),
}

PROPS = {
    "C01": {
        "harnesses": [
            {"pkg": "bt", "name": "VH_C01_VarInt"},
            {"pkg": "bt", "name": "VH_C01_DecodeEncode", "quick": {"params": {"N": 16}}, "thorough": {"params": {"N": 24}}},
            {"pkg": "bt", "name": "VH_C01_EncodeDecode", "quick": {"params": {"IO": 2, "S": 1}}, "thorough": {"params": {"IO": 2, "S": 2}}},
            {"pkg": "bt", "name": "VH_C01_Boundary", "quick": {"params": {"BIG": 0}}, "thorough": {"params": {"BIG": 1}}},
            {"pkg": "bt", "name": "VH_C01_CountBoundary"},
        ],
        "assumptions": [],
        "bounds": {"quick": "", "thorough": ""},
    },
}
