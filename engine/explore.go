package main

import (
	"fmt"
	"go/types"
	"math/big"
	"runtime"
	"sort"
	"strings"
	"sync"
	"time"

	"golang.org/x/tools/go/ssa"
)

type Config struct {
	Harness    string
	AllocCap   int64 // engine-level cap in bytes for any single allocation (concretisation cut)
	MaxSteps   int   // SSA instructions per path
	Unwind     int   // symbolic decisions per (frame, branch instruction)
	MaxPaths   int
	ViolCap    int             // stop exploring once this many paths ended in a violation of one label (0 = off)
	KnownLabel map[string]bool // labels of listed known findings: never counted towards ViolCap
	Workers    int
	SolverKind string
	TimeoutMs  int
	IntMode    bool
	FPReal     bool
	FallbackS  int
	Samples    int
	Deadline   time.Time
	Trace      bool
	SolverLog  string
	Params     map[string]int
	OnePerLab  bool // stop looking for further counterexamples of a label once one is found
}

type Decision struct {
	Kind   byte // 'b' branch, 'v' value, 'p' pick, 'x' exclusion (pending value choice)
	Val    uint64
	Forced bool
	Excl   []uint64
}

type NondetRec struct {
	Tag   string
	Kind  string // u8,u16,u32,u64,int,bool,bytes,len
	Terms []*Term
	Pick  int
}

type NondetVal struct {
	Tag  string `json:"tag"`
	Kind string `json:"kind"`
	V    string `json:"v"` // decimal for scalars, hex for bytes
}

type Violation struct {
	Harness string      `json:"harness"`
	Label   string      `json:"label"`
	Fault   bool        `json:"fault"`
	Nondet  []NondetVal `json:"nondet"`
	Reach   []string    `json:"reach"`
	Stack   []string    `json:"stack,omitempty"`
	// counterexamples of the same label from other paths (up to 7): the driver replays them in turn
	// when the first one depends on values of uninterpreted functions and does not reproduce
	Alternates []*Violation `json:"alternates,omitempty"`
}

type Sample struct {
	UF     bool        `json:"uses_hash_uf"`
	Nondet []NondetVal `json:"nondet"`
	Reach  []string    `json:"reach"`
	End    string      `json:"end"`
}

// Interp is the per-path interpreter state.
type Interp struct {
	hexOrigin map[*Term]hexOrig
	ex        *Explorer
	prog      *ssa.Program
	cfg       *Config
	tb        *TB
	sol       *Solver

	sizes        types.Sizes
	globals      map[*ssa.Global]*Value
	initialised  map[*ssa.Package]bool
	inInit       bool
	intMode      bool
	trace        bool
	frozen       map[*Value]bool
	globalCells  map[*Value]bool
	globalMaps   map[*Map]bool
	baseGlobals  map[*ssa.Global]*Value
	sharedWrites []string

	decisions            []Decision
	dpos                 int
	newWork              [][]Decision
	nondets              []NondetRec
	reach                []string
	steps                int
	depth                int
	nsym                 int
	funcs                map[*ssa.Function]bool
	curFrame             *frame
	unknowns             int
	symDecisions         int
	ghost                map[string]Value
	usedStubs            map[string]bool
	capOblig, capExplore int64
	unwindCut            int
	known                map[*Term]bool
	opaqueBuilders       map[*Value]bool
	race                 *raceState
	ecst                 *ecState
	hashApps             []*Term
	hashConc             []hashConcRec
	hashConcDone         map[string]bool
	hashInjDone          int
	curFn                *ssa.Function
	ivals                map[*Term]ival
	masks                map[*Term]*big.Int
	knownVal             map[*Term]uint64
	cuts                 map[string]bool
	lockLog              func(name string, mu Value)
}

type Explorer struct {
	sharedSamples map[string][]NondetVal
	violPaths     map[string]int
	violCapHit    string
	prog          *ssa.Program
	pkg           *ssa.Package
	fn            *ssa.Function
	cfg           *Config
	mu            sync.Mutex
	work          [][]Decision
	active        int
	cond          *sync.Cond
	paths         int
	decided       int

	violations   map[string]*Violation
	reached      map[string]int
	samples      []Sample
	endWitness   *Sample
	funcs        map[string]bool
	incomplete   []string
	aborts       []string
	unknowns     int
	queries      int
	nsat         int
	nunsat       int
	solverTime   time.Duration
	maxUnwind    int
	steps        int64
	pathEnds     map[string]int
	shared       map[string]int
	assumes      map[string]bool
	cuts         map[string]bool
	symDecisions int
	raceQueries  int
}

func NewExplorer(prog *ssa.Program, pkg *ssa.Package, fn *ssa.Function, cfg *Config) *Explorer {
	ex := &Explorer{prog: prog, pkg: pkg, fn: fn, cfg: cfg,
		violations: map[string]*Violation{}, reached: map[string]int{}, funcs: map[string]bool{},
		pathEnds: map[string]int{}, shared: map[string]int{}, assumes: map[string]bool{}, cuts: map[string]bool{}}
	ex.cond = sync.NewCond(&ex.mu)
	return ex
}

func (ex *Explorer) Run() {
	ex.work = [][]Decision{nil}
	var wg sync.WaitGroup
	for w := 0; w < ex.cfg.Workers; w++ {
		wg.Add(1)
		go func(w int) {
			defer wg.Done()
			ex.worker(w)
		}(w)
	}
	wg.Wait()
}

func (ex *Explorer) worker(id int) {
	var logw *strings.Builder
	_ = logw
	sol, err := NewSolver(ex.cfg.SolverKind, ex.cfg.TimeoutMs, solverLogWriter(ex.cfg, id))
	if err != nil {
		ex.mu.Lock()
		ex.aborts = append(ex.aborts, "cannot start solver: "+err.Error())
		ex.mu.Unlock()
		return
	}
	defer sol.Close()
	var base *baseState
	for {
		ex.mu.Lock()
		for len(ex.work) == 0 && ex.active > 0 {
			ex.cond.Wait()
		}
		if len(ex.work) == 0 {
			ex.mu.Unlock()
			ex.cond.Broadcast()
			break
		}
		if len(ex.aborts) > 0 {
			ex.work = nil
			ex.mu.Unlock()
			ex.cond.Broadcast()
			break
		}
		if ex.violCapHit != "" {
			ex.incomplete = append(ex.incomplete, fmt.Sprintf("exploration stopped after %d paths violating %q with %d prefixes pending", ex.cfg.ViolCap, ex.violCapHit, len(ex.work)))
			ex.work = nil
			ex.mu.Unlock()
			ex.cond.Broadcast()
			break
		}
		if ex.paths >= ex.cfg.MaxPaths {
			ex.incomplete = append(ex.incomplete, fmt.Sprintf("path bound %d reached with %d prefixes pending", ex.cfg.MaxPaths, len(ex.work)))
			ex.work = nil
			ex.mu.Unlock()
			ex.cond.Broadcast()
			break
		}
		if !ex.cfg.Deadline.IsZero() && time.Now().After(ex.cfg.Deadline) {
			ex.incomplete = append(ex.incomplete, fmt.Sprintf("time budget exhausted with %d prefixes pending", len(ex.work)))
			ex.work = nil
			ex.mu.Unlock()
			ex.cond.Broadcast()
			break
		}
		n := len(ex.work) - 1
		prefix := ex.work[n]
		ex.work = ex.work[:n]
		ex.active++
		ex.paths++
		ex.mu.Unlock()

		if base == nil {
			base = ex.newBase(sol)
			if base == nil {
				ex.mu.Lock()
				ex.active--
				ex.mu.Unlock()
				ex.cond.Broadcast()
				continue
			}
		}
		if dirty := ex.runPath(sol, base, prefix); dirty {
			base = nil
		}

		ex.mu.Lock()
		ex.active--
		ex.mu.Unlock()
		ex.cond.Broadcast()
	}
	ex.mu.Lock()
	ex.queries += sol.Queries
	ex.nsat += sol.NSat
	ex.nunsat += sol.NUnsat
	ex.unknowns += sol.NUnk
	ex.solverTime += sol.Time
	ex.mu.Unlock()
}

// baseState is the per-worker result of running package initialisation once. Paths share it
// read-only; a path that writes into it marks it dirty and it is rebuilt.
type baseState struct {
	tb          *TB
	globals     map[*ssa.Global]*Value
	initialised map[*ssa.Package]bool
	cells       map[*Value]bool
	maps        map[*Map]bool
	initSteps   int
}

func (ex *Explorer) newBase(sol *Solver) (b *baseState) {
	in := &Interp{ex: ex, prog: ex.prog, cfg: ex.cfg, tb: NewTB(), sol: sol,
		sizes: types.SizesFor("gc", "amd64"), globals: map[*ssa.Global]*Value{}, initialised: map[*ssa.Package]bool{},
		funcs: map[*ssa.Function]bool{}, trace: false, intMode: ex.cfg.IntMode, ghost: map[string]Value{}, usedStubs: map[string]bool{}, cuts: map[string]bool{}, known: map[*Term]bool{}, knownVal: map[*Term]uint64{}, ivals: map[*Term]ival{}, masks: map[*Term]*big.Int{}}
	defer func() {
		if r := recover(); r != nil {
			ex.mu.Lock()
			ex.aborts = append(ex.aborts, fmt.Sprintf("package init failed: %v", r))
			ex.mu.Unlock()
			b = nil
		}
	}()
	in.inInit = true
	if initFn := ex.pkg.Func("init"); initFn != nil {
		in.callSSA(nil, initFn, nil, nil)
	}
	b = &baseState{tb: in.tb, globals: in.globals, initialised: in.initialised, cells: map[*Value]bool{}, maps: map[*Map]bool{}, initSteps: in.steps}
	for _, g := range in.globals {
		in.collectAll(g, b.cells, b.maps, 0)
	}
	return b
}

func (ex *Explorer) runPath(sol *Solver, base *baseState, prefix []Decision) (dirty bool) {
	in := &Interp{ex: ex, prog: ex.prog, cfg: ex.cfg, tb: base.tb, sol: sol,
		sizes: types.SizesFor("gc", "amd64"), globals: map[*ssa.Global]*Value{}, baseGlobals: base.globals, initialised: base.initialised,
		globalCells: base.cells, globalMaps: base.maps,
		decisions: prefix, funcs: map[*ssa.Function]bool{}, intMode: ex.cfg.IntMode, trace: ex.cfg.Trace, ghost: map[string]Value{}, usedStubs: map[string]bool{}, cuts: map[string]bool{}, known: map[*Term]bool{}, knownVal: map[*Term]uint64{}, ivals: map[*Term]ival{}, masks: map[*Term]*big.Int{}}
	base.tb.Mark()
	defer func() {
		base.tb.Rollback()
		dirty = len(in.sharedWrites) > 0
	}()
	sol.Push()
	end := "return"
	func() {
		defer func() {
			if r := recover(); r != nil {
				switch r := r.(type) {
				case pathEnd:
					end = r.reason
				case boundHit:
					end = "bound"
					ex.mu.Lock()
					ex.incomplete = append(ex.incomplete, r.what+in.whereAmI())
					ex.mu.Unlock()
				case engineAbort:
					end = "abort"
					ex.mu.Lock()
					ex.aborts = append(ex.aborts, r.msg+in.whereAmI())
					ex.mu.Unlock()
				case targetPanic:
					end = "panic"
				default:
					end = "abort"
					ex.mu.Lock()
					ex.aborts = append(ex.aborts, fmt.Sprintf("engine panic: %v%s\n%s", r, in.whereAmI(), shortStack()))
					ex.mu.Unlock()
					if ex.cfg.Trace {
						panic(r)
					}
				}
			}
		}()
		in.callSSA(nil, ex.fn, nil, nil)
		// a witness input for each kind of write to package-level state (for native confirmation)
		for _, w := range in.sharedWrites {
			ex.mu.Lock()
			_, have := ex.sharedSamples[w]
			ex.mu.Unlock()
			if !have && in.sol.Check() == Sat {
				nd := in.modelNondets()
				ex.mu.Lock()
				if ex.sharedSamples == nil {
					ex.sharedSamples = map[string][]NondetVal{}
				}
				ex.sharedSamples[w] = nd
				ex.mu.Unlock()
			}
		}
		// normal end of harness: end witness + sample
		in.pathSample(end)
	}()
	sol.PopTo(0)
	ex.mu.Lock()
	ex.pathEnds[end]++
	ex.steps += int64(in.steps)
	for f := range in.funcs {
		ex.funcs[f.String()] = true
	}
	for _, w := range in.newWork {
		ex.work = append(ex.work, w)
	}
	for _, r := range in.reach {
		_ = r
	}
	for _, s := range in.sharedWrites {
		ex.shared[s]++
	}
	for s := range in.usedStubs {
		ex.assumes[s] = true
	}
	for s := range in.cuts {
		ex.cuts[s] = true
	}
	ex.symDecisions += in.symDecisions
	ex.mu.Unlock()
	return
}

func (in *Interp) whereAmI() string {
	var sb strings.Builder
	sb.WriteString(" [path choices:")
	n := 0
	for _, d := range in.decisions {
		if d.Kind == 'v' || d.Kind == 'p' {
			fmt.Fprintf(&sb, " %c%d", d.Kind, d.Val)
			n++
			if n > 24 {
				break
			}
		}
	}
	sb.WriteString("]")
	return sb.String()
}

func shortStack() string {
	buf := make([]byte, 1<<14)
	n := runtime.Stack(buf, false)
	lines := strings.Split(string(buf[:n]), "\n")
	var out []string
	for _, l := range lines {
		if strings.Contains(l, "/verif/engine/") {
			out = append(out, strings.TrimSpace(l))
		}
		if len(out) > 12 {
			break
		}
	}
	return strings.Join(out, " | ")
}

func (in *Interp) noteFunc(fn *ssa.Function) {
	if !in.inInit {
		in.funcs[fn] = true
	}
}

var stdInitWhitelist = map[string]bool{
	"io": true, "bytes": true, "strings": true, "strconv": true, "encoding/hex": true, "encoding/binary": true,
	"unicode/utf8": true, "math": true, "math/bits": true, "sort": true,
}

func (in *Interp) wantInit(p *ssa.Package) bool {
	path := p.Pkg.Path()
	if strings.HasPrefix(path, "github.com/libsv/go-bt/") {
		return true
	}
	return stdInitWhitelist[path]
}

func (in *Interp) globalOK(g *ssa.Global) bool {
	return false
}

func (in *Interp) addPC(c *Term) {
	if c.IsTrue() {
		return
	}
	in.sol.Assert(c)
}

func (in *Interp) record(d Decision) {
	in.decisions = append(in.decisions, d)
	in.dpos = len(in.decisions)
}

func (in *Interp) fork(alt Decision) {
	p := make([]Decision, in.dpos, in.dpos+1)
	copy(p, in.decisions[:in.dpos])
	p = append(p, alt)
	in.newWork = append(in.newWork, p)
}

// decide resolves a branch condition, forking when both sides are feasible.
func (in *Interp) decide(fr *frame, instr ssa.Instruction, c *Term) bool {
	r := in.decide0(fr, instr, c)
	if !c.IsConst() {
		in.known[c] = r
	}
	return r
}

func (in *Interp) decide0(fr *frame, instr ssa.Instruction, c *Term) bool {
	if c.IsConst() {
		return c.C == 1
	}
	if v, ok := in.known[c]; ok {
		return v
	}
	if c.Op == ONot {
		if v, ok := in.known[c.A[0]]; ok {
			return !v
		}
	}
	in.symDecisions++
	defer func() {
		if r := recover(); r != nil {
			panic(r)
		}
	}()
	if fr != nil && instr != nil {
		if fr.symCount == nil {
			fr.symCount = map[ssa.Instruction]int{}
		}
		fr.symCount[instr]++
		n := fr.symCount[instr]
		if n > in.ex.maxUnwind {
			in.ex.mu.Lock()
			if n > in.ex.maxUnwind {
				in.ex.maxUnwind = n
			}
			in.ex.mu.Unlock()
		}
		if in.unwindCut > 0 && n > in.unwindCut {
			in.cuts[fmt.Sprintf("loop in %s unrolled at most %d symbolic iterations; longer executions not explored", fr.fn, in.unwindCut)] = true
			panic(pathEnd{"unwind-cut"})
		}
		if n > in.cfg.Unwind {
			panic(boundHit{fmt.Sprintf("unwinding bound %d exceeded at %s in %s", in.cfg.Unwind, in.prog.Fset.Position(instr.Pos()), fr.fn)})
		}
	}
	if in.dpos < len(in.decisions) {
		d := in.decisions[in.dpos]
		in.dpos++
		if d.Kind != 'b' {
			panic(engineAbort{"replay divergence: expected branch decision"})
		}
		v := d.Val == 1
		if !d.Forced {
			if v {
				in.addPC(c)
			} else {
				in.addPC(in.tb.Not(c))
			}
		}
		return v
	}
	rT := in.sol.CheckWith(c)
	if rT == Unsat {
		in.record(Decision{Kind: 'b', Val: 0, Forced: true})
		return false
	}
	nc := in.tb.Not(c)
	rF := in.sol.CheckWith(nc)
	if rF == Unsat {
		in.record(Decision{Kind: 'b', Val: 1, Forced: true})
		return true
	}
	if rT == Unknown || rF == Unknown {
		in.unknowns++
	}
	in.fork(Decision{Kind: 'b', Val: 0})
	in.record(Decision{Kind: 'b', Val: 1})
	in.addPC(c)
	return true
}

// pick forks n ways without consulting the solver; returns the chosen index.
func (in *Interp) pick(n int) int {
	if n <= 1 {
		return 0
	}
	if in.dpos < len(in.decisions) {
		d := in.decisions[in.dpos]
		in.dpos++
		if d.Kind != 'p' {
			panic(engineAbort{"replay divergence: expected pick decision"})
		}
		return int(d.Val)
	}
	for i := n - 1; i >= 1; i-- {
		in.fork(Decision{Kind: 'p', Val: uint64(i)})
	}
	in.record(Decision{Kind: 'p', Val: 0})
	return 0
}

// chooseValue concretises a symbolic scalar by forking over its feasible values.
func (in *Interp) chooseValue(t *Term, what string) uint64 {
	if t.IsConst() {
		return t.C
	}
	if v, ok := in.knownVal[t]; ok {
		return v
	}
	v := in.chooseValue0(t, what)
	in.knownVal[t] = v
	return v
}

func (in *Interp) chooseValue0(t *Term, what string) uint64 {
	if t.S.K != KBV || t.S.W > 64 {
		panic(engineAbort{"chooseValue on non-BV64 term (" + what + ")"})
	}
	tb := in.tb
	var excl []uint64
	if in.dpos < len(in.decisions) {
		d := in.decisions[in.dpos]
		if d.Kind == 'v' {
			in.dpos++
			if !d.Forced {
				in.addPC(tb.Eq(t, tb.BVConst(int(t.S.W), d.Val)))
			}
			return d.Val
		}
		if d.Kind != 'x' || in.dpos != len(in.decisions)-1 {
			panic(engineAbort{"replay divergence: expected value decision (" + what + ")"})
		}
		excl = d.Excl
		in.decisions = in.decisions[:in.dpos]
	}
	in.sol.Push()
	for _, e := range excl {
		in.sol.Assert(tb.Not(tb.Eq(t, tb.BVConst(int(t.S.W), e))))
	}
	r := in.sol.Check()
	if r != Sat {
		in.sol.Pop()
		if r == Unknown {
			in.unknowns++
			panic(boundHit{"solver returned unknown while enumerating values for " + what})
		}
		panic(pathEnd{"infeasible"})
	}
	v := in.sol.GetValues([]*Term{t})[0].Uint64()
	// is v the only remaining value? then no alternative needs exploring
	in.sol.Assert(tb.Not(tb.Eq(t, tb.BVConst(int(t.S.W), v))))
	more := in.sol.Check()
	in.sol.Pop()
	if len(excl) >= in.cfg.Unwind*8+64 {
		panic(boundHit{fmt.Sprintf("more than %d distinct values for %s", len(excl), what)})
	}
	if more == Unsat {
		if len(excl) == 0 {
			in.record(Decision{Kind: 'v', Val: v, Forced: true})
			return v
		}
		in.record(Decision{Kind: 'v', Val: v})
		in.addPC(tb.Eq(t, tb.BVConst(int(t.S.W), v)))
		return v
	}
	nx := make([]uint64, len(excl)+1)
	copy(nx, excl)
	nx[len(excl)] = v
	in.fork(Decision{Kind: 'x', Excl: nx})
	in.record(Decision{Kind: 'v', Val: v})
	in.addPC(tb.Eq(t, tb.BVConst(int(t.S.W), v)))
	return v
}

// obligation checks that cond holds on the current path; a counterexample is recorded as a
// violation candidate and the path continues under cond.
func (in *Interp) obligation(cond *Term, label string, fault bool) {
	if in.inInit {
		if cond.IsTrue() {
			return
		}
		panic(engineAbort{"obligation " + label + " during package init"})
	}
	if cond.IsTrue() {
		return
	}
	if in.dpos < len(in.decisions) {
		d := in.decisions[in.dpos]
		in.dpos++
		if d.Kind != 'o' {
			panic(engineAbort{"replay divergence: expected obligation decision at " + label})
		}
		if d.Val == 1 {
			in.addPC(cond)
		}
		return
	}
	ex := in.ex
	ex.mu.Lock()
	first, already := ex.violations[label]
	if already && len(first.Alternates) < 7 {
		already = false
	}
	ex.mu.Unlock()
	tb := in.tb
	if !already || !in.cfg.OnePerLab {
		neg := tb.Not(cond)
		in.sol.Push()
		in.sol.Assert(neg)
		r := in.sol.Check()
		if r == Sat {
			v := &Violation{Harness: in.cfg.Harness, Label: label, Fault: fault, Nondet: in.modelNondets(), Reach: append([]string(nil), in.reach...)}
			in.sol.Pop()
			ex.mu.Lock()
			if f, ok := ex.violations[label]; !ok {
				ex.violations[label] = v
			} else if len(f.Alternates) < 7 {
				f.Alternates = append(f.Alternates, v)
			}
			ex.mu.Unlock()
		} else {
			in.sol.Pop()
			if r == Unknown {
				ex.mu.Lock()
				ex.incomplete = append(ex.incomplete, "solver unknown on obligation "+label+in.whereAmI())
				ex.mu.Unlock()
				// the run is inconclusive for this obligation anyway; do not drag the hard constraint along
				panic(pathEnd{"unknown-obligation"})
			} else if r == Unsat {
				if cond.IsFalse() {
					panic(pathEnd{"infeasible"})
				}
				// cond is implied; nothing to add
				ex.mu.Lock()
				ex.decided++
				ex.mu.Unlock()
				in.record(Decision{Kind: 'o', Val: 0})
				return
			}
		}
	}
	if cond.IsFalse() {
		in.violatedEnd(label)
	}
	if in.sol.CheckWith(cond) == Unsat {
		in.violatedEnd(label)
	}
	in.record(Decision{Kind: 'o', Val: 1})
	in.addPC(cond)
}

// modelNondets reads the current model (must be called right after a Sat check, before pop).
func (in *Interp) modelNondets() []NondetVal {
	var ts []*Term
	for _, n := range in.nondets {
		for _, t := range n.Terms {
			if t.Op == OSym && in.sol.p.decl[smtName(t.Name)] {
				ts = append(ts, t)
			}
		}
	}
	vals := map[*Term]*big.Int{}
	if len(ts) > 0 {
		got := in.sol.GetValues(ts)
		for i, t := range ts {
			vals[t] = got[i]
		}
	}
	val := func(t *Term) *big.Int {
		if t.IsConst() {
			return t.BigVal()
		}
		if v, ok := vals[t]; ok {
			return v
		}
		return big.NewInt(0)
	}
	var out []NondetVal
	for _, n := range in.nondets {
		nv := NondetVal{Tag: n.Tag, Kind: n.Kind}
		switch n.Kind {
		case "bytes":
			var sb strings.Builder
			for _, t := range n.Terms {
				fmt.Fprintf(&sb, "%02x", val(t).Uint64())
			}
			nv.V = sb.String()
		case "len":
			nv.V = fmt.Sprint(n.Pick)
		case "int":
			v := val(n.Terms[0])
			if v.IsInt64() {
				nv.V = v.String()
			} else {
				nv.V = fmt.Sprint(int64(v.Uint64()))
			}
		default:
			nv.V = val(n.Terms[0]).String()
		}
		out = append(out, nv)
	}
	return out
}

func (in *Interp) pathSample(end string) {
	ex := in.ex
	ex.mu.Lock()
	need := ex.endWitness == nil || len(ex.samples) < ex.cfg.Samples
	ex.mu.Unlock()
	if !need {
		return
	}
	if in.sol.Check() != Sat {
		return
	}
	s := Sample{Nondet: in.modelNondets(), Reach: append([]string(nil), in.reach...), End: end}
	for k := range in.usedStubs {
		if strings.HasPrefix(k, "hash:") {
			s.UF = true
		}
	}
	ex.mu.Lock()
	if ex.endWitness == nil {
		ex.endWitness = &s
	}
	if len(ex.samples) < ex.cfg.Samples {
		ex.samples = append(ex.samples, s)
	}
	ex.mu.Unlock()
}

func (in *Interp) freshSym(tag string, s Sort) *Term {
	in.nsym++
	return in.tb.Sym(fmt.Sprintf("%s!%d", tag, in.nsym), s)
}

func sortedKeys(m map[string]bool) []string {
	var ks []string
	for k := range m {
		ks = append(ks, k)
	}
	sort.Strings(ks)
	return ks
}

// violatedEnd ends the path as a violation of label and counts it towards the violating-path cap.
func (in *Interp) violatedEnd(label string) {
	ex := in.ex
	if ex.cfg.ViolCap > 0 && !ex.cfg.KnownLabel[label] {
		ex.mu.Lock()
		if ex.violPaths == nil {
			ex.violPaths = map[string]int{}
		}
		ex.violPaths[label]++
		if ex.violPaths[label] >= ex.cfg.ViolCap && ex.violCapHit == "" {
			ex.violCapHit = label
		}
		ex.mu.Unlock()
	}
	panic(pathEnd{"violated:" + label})
}
