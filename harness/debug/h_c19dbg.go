package debug

import (
	"github.com/libsv/go-bt/v2/bscript"
	"github.com/libsv/go-bt/v2/bscript/interpreter"
	"github.com/libsv/go-bt/v2/bscript/interpreter/errs"
	"github.com/libsv/go-bt/v2/bscript/interpreter/scriptflag"
)

var vdbgFlagSets = []scriptflag.Flag{0, scriptflag.UTXOAfterGenesis, scriptflag.Bip16 | scriptflag.VerifyCleanStack | scriptflag.VerifyMinimalData}

// event codes: the second handler attached to a point logs code+100
const (
	evBeforeExecute = iota + 1
	evAfterExecute
	evBeforeStep
	evAfterStep
	evBeforeOpcode
	evAfterOpcode
	evBeforeScriptChange
	evAfterScriptChange
	evAfterSuccess
	evAfterError
	evBeforePush
	evAfterPush
	evBeforePop
	evAfterPop
)

func vscribbleState(st *interpreter.State) {
	for _, stk := range [][][]byte{st.DataStack, st.AltStack, st.ElseStack, st.SavedFirstStack} {
		for _, it := range stk {
			for i := range it {
				it[i] = vnondetU8("scribble")
			}
		}
	}
	for i := range st.CondStack {
		st.CondStack[i] = 1 - st.CondStack[i]
	}
}

// C19 through the library's own debugger (debug.NewDebugger): two handlers on every attach
// point, the first of which scribbles over every stack byte of the snapshot it is handed.
// Verdict and error code equal those of a run without debugger; handlers of one point run in
// attach order; the lifecycle is BeforeExecute first, AfterExecute before the single final
// AfterSuccess / AfterError, steps and opcodes properly nested.
func VH_C19_DebugPkg() {
	// locking script: optional conditional head, L arbitrary bytes, optional tail closing the conditional
	var ls bscript.Script
	shape := vnondetLen("ls-shape", 0, 3*vparam("COND", 1))
	switch shape {
	case 1:
		ls = bscript.Script{bscript.OpIF}
	case 2:
		ls = bscript.Script{bscript.OpNOTIF}
	case 3:
		ls = bscript.Script{bscript.OpDUP, bscript.OpTOALTSTACK, bscript.OpIF}
	}
	ls = append(ls, vnondetBytes("ls", 1, vparam("L", 1))...)
	if shape != 0 {
		switch vnondetLen("ls-tail", 0, 2) {
		case 0:
			ls = append(ls, bscript.OpENDIF)
		case 1:
			ls = append(ls, bscript.OpELSE, bscript.Op1, bscript.OpENDIF)
		case 2:
			ls = append(ls, bscript.OpELSE, bscript.Op0, bscript.OpENDIF, bscript.Op1)
		}
	}
	var us bscript.Script
	switch vnondetLen("us-kind", 0, 1+vparam("USDATA", 0)) {
	case 0:
		us = bscript.Script{bscript.Op1}
	case 1:
		us = bscript.Script{bscript.Op1, bscript.Op0}
	case 2:
		us = append(bscript.Script{2}, vnondetBytes("us-data", 2, 2)...)
	}
	flags := vdbgFlagSets[vnondetLen("flagset", 0, len(vdbgFlagSets)-1)]
	ls0, us0 := append(bscript.Script{}, ls...), append(bscript.Script{}, us...)
	err0 := interpreter.NewEngine().Execute(interpreter.WithScripts(&ls0, &us0), interpreter.WithFlags(flags))

	var log []int
	d := NewDebugger()
	first := func(code int) ThreadStateFunc {
		return func(st *interpreter.State) { log = append(log, code); vscribbleState(st) }
	}
	second := func(code int) ThreadStateFunc {
		return func(st *interpreter.State) { log = append(log, code+100) }
	}
	firstS := func(code int) StackFunc {
		return func(st *interpreter.State, data []byte) { log = append(log, code); vscribbleState(st) }
	}
	secondS := func(code int) StackFunc {
		return func(st *interpreter.State, data []byte) { log = append(log, code+100) }
	}
	d.AttachBeforeExecute(first(evBeforeExecute))
	d.AttachBeforeExecute(second(evBeforeExecute))
	d.AttachAfterExecute(first(evAfterExecute))
	d.AttachAfterExecute(second(evAfterExecute))
	d.AttachBeforeStep(first(evBeforeStep))
	d.AttachBeforeStep(second(evBeforeStep))
	d.AttachAfterStep(first(evAfterStep))
	d.AttachAfterStep(second(evAfterStep))
	d.AttachBeforeExecuteOpcode(first(evBeforeOpcode))
	d.AttachBeforeExecuteOpcode(second(evBeforeOpcode))
	d.AttachAfterExecuteOpcode(first(evAfterOpcode))
	d.AttachAfterExecuteOpcode(second(evAfterOpcode))
	d.AttachBeforeScriptChange(first(evBeforeScriptChange))
	d.AttachBeforeScriptChange(second(evBeforeScriptChange))
	d.AttachAfterScriptChange(first(evAfterScriptChange))
	d.AttachAfterScriptChange(second(evAfterScriptChange))
	d.AttachAfterSuccess(first(evAfterSuccess))
	d.AttachAfterSuccess(second(evAfterSuccess))
	d.AttachAfterError(func(st *interpreter.State, err error) { log = append(log, evAfterError); vscribbleState(st) })
	d.AttachAfterError(func(st *interpreter.State, err error) { log = append(log, evAfterError+100) })
	d.AttachBeforeStackPush(firstS(evBeforePush))
	d.AttachBeforeStackPush(secondS(evBeforePush))
	d.AttachAfterStackPush(firstS(evAfterPush))
	d.AttachAfterStackPush(secondS(evAfterPush))
	d.AttachBeforeStackPop(first(evBeforePop))
	d.AttachBeforeStackPop(second(evBeforePop))
	d.AttachAfterStackPop(firstS(evAfterPop))
	d.AttachAfterStackPop(secondS(evAfterPop))

	err1 := interpreter.NewEngine().Execute(interpreter.WithScripts(&ls, &us), interpreter.WithFlags(flags), interpreter.WithDebugger(d))
	vassert((err0 == nil) == (err1 == nil), "C19: debug package: same verdict with and without the debugger")
	if err0 != nil && err1 != nil {
		e0, ok0 := err0.(errs.Error)
		e1, ok1 := err1.(errs.Error)
		vassert(ok0 == ok1 && (!ok0 || e0.ErrorCode == e1.ErrorCode), "C19: debug package: same error code with and without the debugger")
	}
	vassert(vbytesEq(ls, ls0) && vbytesEq(us, us0), "C19: debug package: caller's scripts unchanged")
	// handlers of one point run in attach order, back to back
	ok := len(log)%2 == 0
	if ok {
		for i := 0; i < len(log); i += 2 {
			ok = ok && log[i] <= 100 && log[i+1] == log[i]+100
		}
	}
	vassert(ok, "C19: debug package: handlers attached to one point run in attach order")
	// lifecycle over the first handlers
	var ev []int
	for i := 0; i < len(log); i += 2 {
		ev = append(ev, log[i])
	}
	if len(ev) == 0 {
		// rejected before execution started (e.g. a script that does not parse): no callbacks at all
		vassert(err1 != nil, "C19: debug package: no callbacks only when execution never started")
		vreach("dbgpkg-not-started")
		return
	}
	good := ev[0] == evBeforeExecute
	finals, afterExec, depth, inOp := 0, 0, 0, 0
	openAtEnd := false // a step cut short by an error: AfterExecute fires with the step and opcode still open
	for i, e := range ev {
		switch e {
		case evBeforeExecute:
			good = good && i == 0
		case evAfterExecute:
			afterExec++
			openAtEnd = depth != 0 || inOp != 0
			good = good && finals == 0
		case evAfterSuccess, evAfterError:
			finals++
			good = good && i == len(ev)-1
		case evBeforeStep:
			good = good && depth == 0 && afterExec == 0
			depth++
		case evAfterStep:
			// (an opcode that ends its script early - OP_RETURN after Genesis - has no AfterExecuteOpcode: the step closes it)
			good = good && depth == 1 && afterExec == 0
			depth--
			inOp = 0
		case evBeforeOpcode:
			good = good && depth == 1 && inOp == 0 && afterExec == 0
			inOp++
		case evAfterOpcode:
			good = good && inOp == 1 && afterExec == 0
			inOp--
		}
	}
	good = good && finals == 1 && afterExec == 1 && ((ev[len(ev)-1] == evAfterSuccess) == (err1 == nil))
	good = good && (!openAtEnd || ev[len(ev)-1] == evAfterError)
	vassert(good, "C19: debug package: callbacks fire in the documented lifecycle order")
	if err1 == nil {
		vreach("dbgpkg-success")
	} else {
		vreach("dbgpkg-error")
	}
}
